"""Abstraction functions ndpoly -> model, and the trusted input builder.

alpha(p)      through the public observables p.exponents / p.coefficients / p.names / p.shape
alpha_raw(p)  through the raw structured buffer (numpy.ndarray.view(p, numpy.ndarray); field names
              decoded as ord(ch) - 59); calls no numpoly code at all
build(spec)   allocates numpoly.ndpoly(...) and writes every coefficient column through the raw
              base-class view, so that constructor defects cannot mask the operation under test
"""
import numpy

from . import tree  # noqa: F401  (binds numpoly to the tree under test)
import numpoly

from .model import V, exact_array, exact_scalar, ONE, name_index

KEY_OFFSET = 59


def _mono(names, exps):
    return frozenset((names[i], int(e)) for i, e in enumerate(exps) if e)


def _acc(t, m, c):
    t[m] = t[m] + c if m in t else c


def alpha(p, exact=True):
    names = tuple(p.names)
    exps = numpy.asarray(p.exponents)
    coefs = p.coefficients
    shape = tuple(p.shape)
    t = {}
    if len(coefs):
        assert len(exps) == len(coefs), "len(exponents) != len(coefficients)"
    for e, c in zip(exps, coefs):
        c = numpy.asarray(c)
        assert c.shape == shape, f"coefficient shape {c.shape} != poly shape {shape}"
        _acc(t, _mono(names, e), exact_array(c) if exact else c)
    return V(t, shape)


def raw_view(p):
    return numpy.ndarray.view(p, numpy.ndarray)


def alpha_raw(p, exact=True):
    raw = raw_view(p)
    names = tuple(p.names)
    t = {}
    for key in raw.dtype.names:
        try:
            exps = [ord(ch) - KEY_OFFSET for ch in key]
        except SystemError:
            # numpy.str_ keys may hold code units beyond the Unicode range (exponents > 0x10FFFF with >= 2 names)
            exps = [int(x) - KEY_OFFSET for x in numpy.array([key]).view(numpy.uint32)]
        if len(exps) != len(names):
            raise AssertionError(f"key has {len(exps)} characters for names {names}")
        c = raw[key]
        _acc(t, _mono(names, exps), exact_array(c) if exact else numpy.array(c))
    return V(t, tuple(raw.shape))


def wellformed(p):
    """C03 invariant; returns list of complaint strings (empty = well-formed)."""
    bad = []
    if not isinstance(p, numpoly.ndpoly):
        return [f"not an ndpoly: {type(p).__name__}"]
    try:
        exps = numpy.asarray(p.exponents)
        names = tuple(p.names)
        coefs = p.coefficients
        if exps.ndim != 2:
            bad.append(f"exponents.ndim={exps.ndim}")
        rows = [tuple(int(x) for x in r) for r in exps]
        if len(set(rows)) != len(rows):
            bad.append(f"duplicate exponent rows {rows}")
        if p.size and len(coefs) != len(rows):
            bad.append(f"{len(coefs)} coefficients for {len(rows)} exponent rows")
        for c in coefs:
            c = numpy.asarray(c)
            if c.shape != tuple(p.shape):
                bad.append(f"coefficient shape {c.shape} != {tuple(p.shape)}")
            if c.dtype != p.dtype:
                bad.append(f"coefficient dtype {c.dtype} != {p.dtype}")
        if len(names) < 1:
            bad.append("no indeterminate name")
        if len(set(names)) != len(names):
            bad.append(f"duplicate names {names}")
        if exps.ndim == 2 and exps.shape[1] != len(names):
            bad.append(f"exponent width {exps.shape[1]} != {len(names)} names")
        raw = raw_view(p)
        fields = raw.dtype.names or ()
        dec = [tuple(ord(ch) - KEY_OFFSET for ch in k) for k in fields]
        if dec != rows:
            bad.append(f"raw field names decode to {dec}, exponents say {rows}")
        for k in fields:
            if raw.dtype.fields[k][0] != p.dtype:
                bad.append(f"raw field dtype {raw.dtype.fields[k][0]} != {p.dtype}")
        if not bad and p.size:
            ar, aa = alpha_raw(p), alpha(p)
            if ar != aa and not _same_allowing_nan(ar, aa):
                bad.append("alpha_raw != alpha")
    except Exception as err:  # noqa: BLE001
        bad.append(f"attribute access raised {type(err).__name__}: {err}")
    return bad


# ---- specs -------------------------------------------------------------------------------
# spec = {"n": [names], "s": [shape], "d": "i8", "t": [[exps], [flat coefficients]] ..., "v": variant}
# complex coefficients are encoded {"c": [re, im]}

def enc_num(x):
    x = exact_scalar(x)
    if isinstance(x, complex):
        return {"c": [x.real, x.imag]}
    if isinstance(x, int):
        return x
    return float(x)


def dec_num(x):
    if isinstance(x, dict):
        return complex(x["c"][0], x["c"][1])
    return x


def spec(names, shape, terms, dtype="i8", variant="canon"):
    """terms: iterable of (exps tuple, flat coefficient list or scalar)"""
    n = 1
    for k in shape:
        n *= k
    tt = []
    for e, c in terms:
        if not isinstance(c, (list, tuple, numpy.ndarray)):
            c = [c] * n
        c = list(numpy.asarray(c).ravel().tolist()) if isinstance(c, numpy.ndarray) else list(c)
        assert len(c) == n, (shape, c)
        tt.append([list(int(x) for x in e), [enc_num(x) for x in c]])
    return {"n": list(names), "s": list(shape), "d": dtype, "t": tt, "v": variant}


def model_of(sp, exact=True):
    shape = tuple(sp["s"])
    t = {}
    for e, c in sp["t"]:
        arr = numpy.array([dec_num(x) for x in c], dtype=object).reshape(shape) if True else None
        arr = exact_array(arr)
        _acc(t, _mono(sp["n"], e), arr)
    return V(t, shape)


VARIANTS = ("canon", "T", "F", "slice", "zeroterm", "unsorted", "bigalloc", "unusedname", "rev", "readonly", "view")


def build(sp):
    """Trusted builder: spec -> ndpoly (never goes through numpoly's value-writing code)."""
    names = tuple(sp["n"])
    shape = tuple(sp["s"])
    dtype = numpy.dtype(sp["d"])
    variant = sp.get("v", "canon")
    # "content+layout" composes a content variant (zeroterm / unsorted / unusedname / bigalloc) with a layout variant
    # (T / F / slice / rev / readonly); a single word is either of them
    tokens = variant.split("+")
    layouts = [t_ for t_ in tokens if t_ in ("T", "F", "slice", "rev", "readonly", "view")]
    contents = [t_ for t_ in tokens if t_ not in layouts and t_ != "canon"]
    assert len(layouts) <= 1 and all(c_ in ("zeroterm", "unsorted", "unusedname", "bigalloc") for c_ in contents), variant
    layout = layouts[0] if layouts else ""
    terms = [(tuple(e), numpy.array([dec_num(x) for x in c]).astype(dtype).reshape(shape)) for e, c in sp["t"]]
    if not terms:
        terms = [((0,) * len(names), numpy.zeros(shape, dtype))]
    if "zeroterm" in contents:
        used = {e for e, _ in terms}
        extra = tuple([3] + [0] * (len(names) - 1))
        if extra not in used:
            terms.append((extra, numpy.zeros(shape, dtype)))
    # storage order: the library itself always produces exponent rows in numpy.unique (lexicographic)
    # order, so that is the canonical representation of inputs; "unsorted" is the reverse of it
    terms.sort(key=lambda t: t[0], reverse=("unsorted" in contents))
    if "unusedname" in contents:
        k = 1 + max(name_index(n) for n in names)
        names = names + (f"q{k}",)
        terms = [(e + (0,), c) for e, c in terms]
    exps = [e for e, _ in terms]
    kw = {}
    if "bigalloc" in contents:
        kw["allocation"] = len(exps)  # the only other value ndpoly accepts consistently
    variant = layout or "canon"
    if variant == "T" and len(shape) >= 2:
        p = numpoly.ndpoly(exponents=exps, shape=shape[::-1], names=names, dtype=dtype, **kw)
        raw = raw_view(p)
        for key, (_, c) in zip(p.keys, terms):
            raw[key] = c.T
        out = numpy.ndarray.transpose(p)
    elif variant == "F" and len(shape) >= 2:
        p = numpoly.ndpoly(exponents=exps, shape=shape, names=names, dtype=dtype, order="F", **kw)
        raw = raw_view(p)
        for key, (_, c) in zip(p.keys, terms):
            raw[key] = c
        out = p
    elif variant == "slice" and len(shape) >= 1:
        big = (2 * shape[0] + 1,) + shape[1:]
        p = numpoly.ndpoly(exponents=exps, shape=big, names=names, dtype=dtype, **kw)
        raw = raw_view(p)
        for key, (_, c) in zip(p.keys, terms):
            raw[key] = 77
            raw[key][1::2] = c
        out = numpy.ndarray.__getitem__(p, slice(1, None, 2))
    elif variant == "rev" and len(shape) >= 1:
        # negative strides: stored back to front along the first and the last axis, handed over as [::-1, ..., ::-1]
        p = numpoly.ndpoly(exponents=exps, shape=shape, names=names, dtype=dtype, **kw)
        raw = raw_view(p)
        index = (slice(None, None, -1),) + (slice(None),) * (len(shape) - 2) + ((slice(None, None, -1),) if len(shape) >= 2 else ())
        for key, (_, c) in zip(p.keys, terms):
            raw[key] = c[index]
        out = numpy.ndarray.__getitem__(p, index)
    else:
        p = numpoly.ndpoly(exponents=exps, shape=shape, names=names, dtype=dtype, **kw)
        raw = raw_view(p)
        for key, (_, c) in zip(p.keys, terms):
            raw[key] = c
        out = p
        if variant == "readonly":
            numpy.ndarray.setflags(out, write=False)
        elif variant == "view":
            # same shape and strides, but the object does not own its data
            out = numpy.ndarray.__getitem__(p, Ellipsis) if shape else numpy.ndarray.view(p)
    assert type(out) is numpoly.ndpoly and tuple(out.shape) == shape, (type(out), out.shape, shape)
    return out


def _same_allowing_nan(a, b):
    """V == V with nan taken equal to nan (specs with nan coefficients cannot be compared through the exact model)"""
    if a.shape != b.shape or set(a.t) != set(b.t):
        return False
    for m in a.t:
        x, y = numpy.asarray(a.t[m], dtype=object).ravel().tolist(), numpy.asarray(b.t[m], dtype=object).ravel().tolist()
        if len(x) != len(y) or any(not (u == v or (u != u and v != v)) for u, v in zip(x, y)):
            return False
    return True


def build_checked(sp):
    p = build(sp)
    if alpha_raw(p) != model_of(sp) and not _same_allowing_nan(alpha_raw(p), model_of(sp)):
        raise RuntimeError(f"HARNESS: trusted builder produced a different value for {sp}")
    return p


def spec_of_model(v, names=None, dtype=None, variant="canon"):
    """A canonical spec denoting model value v (used to turn reached states into inputs)."""
    if names is None:
        names = v.names() or ["q0"]
    idx = {n: i for i, n in enumerate(names)}
    terms = []
    kinds = set()
    for m, c in sorted(v.t.items(), key=lambda mc: sorted((idx[n], e) for n, e in mc[0])):
        e = [0] * len(names)
        for n, k in m:
            e[idx[n]] = k
        flat = c.ravel().tolist()
        for x in flat:
            x = exact_scalar(x)
            kinds.add("c" if isinstance(x, complex) else "i" if isinstance(x, int) else "f")
        terms.append((tuple(e), flat))
    if dtype is None:
        dtype = "c16" if "c" in kinds else "f8" if "f" in kinds else "i8"
    return spec(names, v.shape, terms, dtype, variant)
