"""Runner: enumerates the cases of one property over a pool of forked workers, judges every case
with the property's oracle, writes evidence/<ID>.json, replay files and VIOLATION lines.

A property module (mc/props/Cxx.py) provides
    cases(tier, seed)  -> list of JSON-able case dicts (the complete bounded space of this tier)
    run_case(case, R)  -> None; reports through the recorder R (R.tr(), R.state(), R.fail(), ...)
    META               -> dict(rule=..., bounds=callable(tier)->dict | dict, level_note=...)
and optionally  post(agg, tier) -> list of extra failure dicts computed on the merged results.
"""
import collections
import hashlib
import importlib
import json
import os
import pickle
import signal
import sys
import tempfile
import time
import traceback
import shutil
import multiprocessing

VERIF = os.path.dirname(os.path.dirname(os.path.abspath(__file__)))
OUT = os.environ.get("VERIF_OUT", VERIF)  # evidence/replays of runs against scratch trees go elsewhere
NWORKERS = int(os.environ.get("VERIF_WORKERS", "16"))
MAX_VIOLATION_LINES = 25


class Hang(BaseException):
    """raised by the watchdog timer; a BaseException so that no `except Exception` in the code under test swallows it"""


WATCHDOG_REPEAT_S = 2.0   # the timer keeps firing until it is cleared: a swallowed Hang is raised again


def _alarm(signum, frame):
    raise Hang("watchdog: case exceeded its time budget")


class Recorder:
    """Collects what one case covered."""

    def __init__(self, case):
        self.case = case
        self.transitions = 0
        self.states = set()
        self.fails = []
        self.stats = collections.Counter()
        self.samples = []
        self.outcomes = set()

    def tr(self, n=1):
        self.transitions += n

    def state(self, key):
        self.states.add(key if isinstance(key, int) else hash(key))

    def outcome(self, key):
        self.outcomes.add(key if isinstance(key, int) else hash(key))

    def stat(self, name, n=1):
        self.stats[name] += n

    def sample(self, obj):
        if len(self.samples) < 2:
            self.samples.append(obj)

    def fail(self, op, kind, detail, tags=(), sub=None):
        """op: operation name; kind: wrong-value|exception|hang|...; tags: input-feature tags
        computed from the INPUT; sub: optional narrower replayable case."""
        self.fails.append({
            "op": op, "kind": kind, "detail": str(detail)[:600], "tags": sorted(set(tags)),
            "case": sub if sub is not None else self.case,
        })

    def result(self):
        return {"tr": self.transitions, "states": self.states, "fails": self.fails,
                "stats": dict(self.stats), "samples": self.samples, "outcomes": self.outcomes}


def exec_case(prop, case, budget=None):
    """Run one case in this process (used by workers and by --replay)."""
    from . import tree
    R = Recorder(case)
    tree.reset_options()
    budget = budget or getattr(prop, "CASE_BUDGET_S", 60)
    signal.signal(signal.SIGALRM, _alarm)
    signal.setitimer(signal.ITIMER_REAL, budget, WATCHDOG_REPEAT_S)
    try:
        if case.get("k") == "history":
            from . import history
            history.run(R, prop.ID, case)
        else:
            prop.run_case(case, R)
    except Hang as err:
        R.fail(case.get("k", "?"), "hang", f"{err} ({budget}s)", tags=["hang"])
    except MemoryError:
        R.fail(case.get("k", "?"), "harness-error", "MemoryError", tags=["harness"])
    except Exception as err:
        frames = traceback.extract_tb(err.__traceback__)
        inner = os.path.realpath(frames[-1].filename) if frames else ""
        if inner.startswith(tree.REPO + os.sep) or os.sep + "numpy" + os.sep in inner:
            # the exception comes out of the library (or out of numpy called by it) at a point where the case does not
            # expect one: the behaviour under test failed, which is a violation, not a defect of the harness
            where = next((f"{f.filename}:{f.lineno}" for f in reversed(frames) if os.path.realpath(f.filename).startswith(VERIF)), "?")
            R.fail(case.get("k", "?"), "unexpected-exception",
                   f"{type(err).__name__}: {str(err)[:200]} raised in {inner}:{frames[-1].lineno} (called from {where}); the case could not be completed",
                   tags=["unexpected-exception"])
        else:   # a bug in the harness itself, never silently a pass
            R.fail(case.get("k", "?"), "harness-error", traceback.format_exc()[-900:], tags=["harness"])
    finally:
        signal.setitimer(signal.ITIMER_REAL, 0)
    if not getattr(prop, "OPTIONS_MAY_LEAK", False) and tree.options_leaked():
        import numpoly
        R.fail(case.get("k", "?"), "option-leak", f"global options left modified: {numpoly.get_options()}",
               tags=["option-leak"])
        tree.reset_options()
    return R.result()


def _worker(prop, cases, counter, journal, started, wid, outpath, chunk):
    import numpy  # noqa: F401
    with open(outpath, "ab") as out:
        while True:
            with counter.get_lock():
                start = counter.value
                counter.value = start + chunk
            if start >= len(cases):
                break
            for i in range(start, min(start + chunk, len(cases))):
                journal[wid] = i
                started[wid] = time.time()
                res = exec_case(prop, cases[i])
                pickle.dump((i, res), out)
                out.flush()
                journal[wid] = -1
    os._exit(0)


def run_pool(prop, cases, nworkers=NWORKERS):
    """-> list of (index, result) for every case; a worker that dies is reported as a 'crash'
    failure of the case it had journaled and a new worker continues."""
    scratch = tempfile.mkdtemp(prefix="numpoly-verif-run-", dir=os.environ.get("TMPDIR", "/var/tmp"))
    try:
        nworkers = max(1, min(nworkers, len(cases)))
        chunk = max(1, min(64, len(cases) // (nworkers * 8) or 1))
        counter = multiprocessing.Value("l", 0)
        journal = multiprocessing.Array("l", [-1] * 4096)
        started = multiprocessing.Array("d", [0.0] * 4096)
        procs = {}
        nxt = 0
        crashes = []
        killed = set()
        # last line of defence against code that never returns to the interpreter's signal check or swallows the
        # watchdog's exception: the parent kills a worker that sits on one case far beyond the case budget
        hard_limit = 1.5 * getattr(prop, "CASE_BUDGET_S", 60) + 60

        def spawn():
            nonlocal nxt
            wid = nxt
            nxt += 1
            path = os.path.join(scratch, f"w{wid}.pkl")
            pid = os.fork()
            if pid == 0:
                try:
                    _worker(prop, cases, counter, journal, started, wid, path, chunk)
                finally:
                    os._exit(3)
            procs[pid] = wid
        for _ in range(nworkers):
            spawn()
        while procs:
            pid, status = os.waitpid(-1, os.WNOHANG)
            if pid == 0:
                now = time.time()
                for p_, w_ in list(procs.items()):
                    if journal[w_] >= 0 and started[w_] and now - started[w_] > hard_limit:
                        killed.add(journal[w_])
                        started[w_] = 0.0
                        try:
                            os.kill(p_, signal.SIGKILL)
                        except OSError:
                            pass
                time.sleep(0.05)
                continue
            if pid not in procs:
                continue
            wid = procs.pop(pid)
            if status != 0:
                i = journal[wid]
                crashes.append((i, status))
                if nxt < 4000 and counter.value < len(cases) + chunk * nworkers:
                    spawn()
        results = {}
        for name in os.listdir(scratch):
            with open(os.path.join(scratch, name), "rb") as f:
                while True:
                    try:
                        i, res = pickle.load(f)
                    except EOFError:
                        break
                    except Exception:
                        break
                    results[i] = res
        for i, status in crashes:
            if i >= 0 and i not in results:
                R = Recorder(cases[i])
                if i in killed:
                    R.fail(cases[i].get("k", "?"), "hang", f"no result after {hard_limit:.0f}s and the in-process watchdog did not get through: worker killed",
                           tags=["hang", "killed"])
                else:
                    R.fail(cases[i].get("k", "?"), "crash", f"worker died with wait status {status} while running this case",
                           tags=["crash"])
                results[i] = R.result()
        missing = [i for i in range(len(cases)) if i not in results]
        # cases lost in the chunk of a crashed worker: run them again, each alone in a fresh child
        for i in missing:
            results[i] = run_isolated(prop, cases[i])
        return [(i, results[i]) for i in range(len(cases))]
    finally:
        shutil.rmtree(scratch, ignore_errors=True)


def run_isolated(prop, case):
    r, w = os.pipe()
    pid = os.fork()
    if pid == 0:
        os.close(r)
        try:
            res = exec_case(prop, case)
            with os.fdopen(w, "wb") as f:
                pickle.dump(res, f)
        finally:
            os._exit(0)
    os.close(w)
    hard_limit = 1.5 * getattr(prop, "CASE_BUDGET_S", 60) + 60
    t0 = time.time()
    chunks = []
    os.set_blocking(r, False)
    timed_out = False
    while True:
        try:
            b = os.read(r, 1 << 16)
            if not b:
                break
            chunks.append(b)
        except BlockingIOError:
            if time.time() - t0 > hard_limit:
                timed_out = True
                try:
                    os.kill(pid, signal.SIGKILL)
                except OSError:
                    pass
                break
            time.sleep(0.05)
    os.close(r)
    data = b"".join(chunks)
    _, status = os.waitpid(pid, 0)
    if timed_out:
        R = Recorder(case)
        R.fail(case.get("k", "?"), "hang", f"isolated run gave no result after {hard_limit:.0f}s: killed", tags=["hang", "killed"])
        return R.result()
    if status != 0 or not data:
        R = Recorder(case)
        R.fail(case.get("k", "?"), "crash", f"isolated run died with wait status {status}", tags=["crash"])
        return R.result()
    return pickle.loads(data)


# ---- known findings ----------------------------------------------------------------------
def load_findings(pid):
    path = os.path.join(VERIF, "known_findings.json")
    if not os.path.exists(path):
        return []
    with open(path) as f:
        data = json.load(f)
    return [e for e in data.get("open", []) if e.get("property") == pid]


def match_finding(fail, findings):
    for e in findings:
        m = e["match"]
        if "op" in m and fail["op"] not in (m["op"] if isinstance(m["op"], list) else [m["op"]]):
            continue
        if "kind" in m and fail["kind"] not in (m["kind"] if isinstance(m["kind"], list) else [m["kind"]]):
            continue
        if not set(m.get("tags_all", [])) <= set(fail["tags"]):
            continue
        if set(m.get("tags_none", [])) & set(fail["tags"]):
            continue
        return e
    return None


def fail_sort_key(f):
    return (len(json.dumps(f["case"], sort_keys=True, default=str)), f["op"], f["kind"])


def write_replay(pid, fail):
    d = os.path.join(OUT, "replays", pid)
    os.makedirs(d, exist_ok=True)
    blob = json.dumps({"property": pid, "case": fail["case"], "op": fail["op"], "kind": fail["kind"],
                       "tags": fail["tags"], "detail": fail["detail"]}, sort_keys=True, indent=1, default=str)
    h = hashlib.sha1(json.dumps([fail["case"], fail["op"], fail["kind"]], sort_keys=True, default=str).encode()).hexdigest()[:12]
    path = os.path.join(d, f"{h}.json")
    with open(path, "w") as f:
        f.write(blob + "\n")
    return path


def main(argv=None):
    argv = list(sys.argv[1:] if argv is None else argv)
    if not argv or argv[0] in ("-h", "--help"):
        print("usage: check <ID> [--tier quick|thorough] [--replay FILE] [--list]")
        return 2
    pid = argv[0]
    tier = os.environ.get("VERIF_TIER", "quick")
    replay = None
    i = 1
    while i < len(argv):
        if argv[i] == "--tier":
            tier = argv[i + 1]
            i += 2
        elif argv[i] == "--replay":
            replay = argv[i + 1]
            i += 2
        else:
            print(f"unknown argument {argv[i]}")
            return 2
    if tier not in ("quick", "thorough"):
        tier = "quick"
    try:
        seed = int(os.environ.get("VERIF_SEED", "0"))
    except ValueError:
        seed = 0
    os.environ.setdefault("PYTHONHASHSEED", "0")
    t0 = time.time()
    from . import tree, model
    prop = importlib.import_module(f"mc.props.{pid}")

    if replay:
        with open(replay) as f:
            rec = json.load(f)
        res = exec_case(prop, rec["case"])
        for fl in res["fails"]:
            print(f"replay: still fails: op={fl['op']} kind={fl['kind']} {fl['detail'][:300]}")
        if res["fails"]:
            print(f"VIOLATION property={pid} replay={replay}")
            return 1
        print(f"replay: case passes ({res['tr']} transitions judged)")
        return 0

    n_model = model.selfcheck()
    cases = prop.cases(tier, seed)
    if not os.environ.get("VERIF_NO_HISTORY"):
        from . import history
        # appended: the short, uniform history cases fill the tail of the schedule behind the property's long cases
        cases = ([] if os.environ.get("VERIF_ONLY_HISTORY") else cases) + history.case_list(pid, tier)
    if hasattr(prop, "pre"):
        prop.pre(tier, seed)
    results = run_pool(prop, cases)

    agg = {"tr": 0, "states": set(), "outcomes": set(), "stats": collections.Counter(), "samples": [], "fails": []}
    for i, res in results:
        agg["tr"] += res["tr"]
        agg["states"] |= res["states"]
        agg["outcomes"] |= res["outcomes"]
        agg["stats"].update(res["stats"])
        if len(agg["samples"]) < 6 and res["samples"] and (i % max(1, len(cases) // 6) == 0 or len(agg["samples"]) < 2):
            agg["samples"].extend(res["samples"][:1])
        agg["fails"].extend(res["fails"])
    extra_cov = {}
    if hasattr(prop, "post"):
        more = prop.post(agg, tier, seed, extra_cov)
        agg["fails"].extend(more or [])

    findings = load_findings(pid)
    known_hit = collections.Counter()
    violations = []
    harness_errors = []
    for fl in agg["fails"]:
        if fl["kind"] == "harness-error":
            harness_errors.append(fl)
            continue
        e = match_finding(fl, findings)
        if e is not None:
            known_hit[e["id"]] += 1
        else:
            violations.append(fl)
    violations.sort(key=fail_sort_key)

    d = os.path.join(OUT, "replays", pid)
    if os.path.isdir(d):
        shutil.rmtree(d, ignore_errors=True)
    lines = []
    seen_sig = set()
    for fl in violations:
        sig = (fl["op"], fl["kind"], tuple(fl["tags"]))
        if sig in seen_sig and len(lines) >= 5:
            continue
        seen_sig.add(sig)
        path = write_replay(pid, fl)
        lines.append((path, fl))
        if len(lines) >= MAX_VIOLATION_LINES:
            break

    meta = prop.META
    bounds = meta["bounds"](tier) if callable(meta.get("bounds")) else meta.get("bounds", {})
    nstates = len(agg["states"])
    cov = {
        "states": max(nstates, 0),
        "transitions": agg["tr"],
        "traces_validated_against_impl": agg["tr"],
        "evaluations": agg["tr"],
        "distinct_nontrivial": max(nstates, len(agg["outcomes"])),
        "rule": meta.get("rule", ""),
        "samples": agg["samples"] or [cases[0] if cases else {}],
        "exhaustive": not agg["stats"].get("time_cap_hit", 0) and not harness_errors,
        "cases": len(cases),
        "bounds": bounds,
        "distinct_outcomes": len(agg["outcomes"]),
        "stats": dict(sorted(agg["stats"].items())),
        "known_findings_hit": dict(known_hit),
        "model_selfcheck_assertions": n_model,
        "config": dict(tree.config(), tier=tier, seed=seed, workers=NWORKERS),
    }
    cov.update(extra_cov)
    ev = {
        "property_id": pid, "tier": tier, "seed": seed, "level": "model_checking",
        "coverage": cov,
        "assumptions": list(meta.get("assumptions", [])) + tree.assumptions,
        "wall_s": round(time.time() - t0, 2),
        "violations": len(violations),
    }
    os.makedirs(os.path.join(OUT, "evidence"), exist_ok=True)
    with open(os.path.join(OUT, "evidence", f"{pid}.json"), "w") as f:
        json.dump(ev, f, indent=1, sort_keys=True, default=str)
        f.write("\n")

    print(f"{pid} tier={tier} seed={seed}: cases={len(cases)} transitions={agg['tr']} states={nstates} "
          f"outcomes={len(agg['outcomes'])} wall={ev['wall_s']}s")
    for k, n in sorted(known_hit.items()):
        e = next(x for x in findings if x["id"] == k)
        print(f"KNOWN-FINDING: property={pid} {e['id']}: {e['what']} ({n} cases)")
    if harness_errors:
        for fl in harness_errors[:2]:
            print(f"HARNESS ERROR in case {json.dumps(fl['case'], default=str)[:300]}:\n{fl['detail']}")
        if not violations:
            print(f"{len(harness_errors)} harness errors - result is not a verdict")
            return 2
        # cases that did violate the property stand on their own (each has a replay file); harness code falling over
        # next to them is usually a consequence of the same broken behaviour and must not turn the verdict into "none"
        print(f"{len(harness_errors)} harness errors next to {len(violations)} violations - the violations are reported")
    if violations:
        for path, fl in lines:
            print(f"  {fl['op']} [{fl['kind']}] {fl['detail'][:240]}")
            print(f"VIOLATION property={pid} replay={path}")
        print(f"{len(violations)} violating cases in total ({len(lines)} replay files written)")
        return 1
    print("ok")
    return 0


if __name__ == "__main__":
    sys.exit(main())
