"""Argument snapshots (C17, and as a monitor in other checks): byte-level state of every ndarray / ndpoly
reachable from an argument, taken through the stride-aware base-class view (no numpoly code involved)."""
import numpy

from . import tree  # noqa: F401
import numpoly


def snap(obj, depth=0):
    if isinstance(obj, numpoly.ndpoly):
        raw = numpy.ndarray.view(obj, numpy.ndarray)
        try:
            exps = numpy.asarray(obj.exponents).tolist()
        except Exception as err:  # noqa: BLE001
            exps = f"unreadable: {type(err).__name__}"
        return ("ndpoly", tuple(obj.shape), tuple(obj.strides), str(raw.dtype), tuple(obj.names),
                tuple(str(k) for k in obj.keys), str(obj.dtype), raw.tobytes(), exps)
    if isinstance(obj, numpy.ndarray):
        return ("ndarray", tuple(obj.shape), tuple(obj.strides), str(obj.dtype),
                obj.tobytes() if obj.dtype != object else repr(obj.tolist()))
    if isinstance(obj, (list, tuple)) and depth < 4:
        return (type(obj).__name__,) + tuple(snap(x, depth + 1) for x in obj)
    if isinstance(obj, dict) and depth < 4:
        return ("dict",) + tuple((k, snap(v, depth + 1)) for k, v in obj.items())
    return ("other", repr(obj)[:200])


def describe_change(before, after):
    if before[0] != after[0]:
        return f"type {before[0]} -> {after[0]}"
    if before[0] == "ndpoly":
        names = ["kind", "shape", "strides", "struct dtype", "names", "keys", "dtype", "bytes", "exponents"]
    elif before[0] == "ndarray":
        names = ["kind", "shape", "strides", "dtype", "bytes"]
    else:
        for i, (b, a) in enumerate(zip(before[1:], after[1:])):
            if b != a:
                if isinstance(b, tuple) and isinstance(a, tuple) and b and a and isinstance(b[0], str):
                    return f"item {i}: " + describe_change(b, a)
                return f"item {i} changed"
        return "length changed"
    for n, b, a in zip(names, before, after):
        if b != a:
            return f"{n} changed" + (f" ({b} -> {a})" if n != "bytes" else "")
    return "changed"
