"""Argument snapshots (C17, and as a monitor in other checks): byte-level state of every ndarray / ndpoly
reachable from an argument, taken through the stride-aware base-class view (no numpoly code involved)."""
import numpy

from . import tree  # noqa: F401
import numpoly


def snap(obj, depth=0):
    if isinstance(obj, numpoly.ndpoly):
        raw = numpy.ndarray.view(obj, numpy.ndarray)
        try:
            exps = numpy.asarray(obj.exponents).tolist()
        except Exception as err:  # noqa: BLE001
            exps = f"unreadable: {type(err).__name__}"
        return ("ndpoly", tuple(obj.shape), tuple(obj.strides), str(raw.dtype), tuple(obj.names),
                tuple(str(k) for k in obj.keys), str(obj.dtype), raw.tobytes(), exps)
    if isinstance(obj, numpy.ndarray):
        return ("ndarray", tuple(obj.shape), tuple(obj.strides), str(obj.dtype),
                obj.tobytes() if obj.dtype != object else repr(obj.tolist()))
    if isinstance(obj, (list, tuple)) and depth < 4:
        return (type(obj).__name__,) + tuple(snap(x, depth + 1) for x in obj)
    if isinstance(obj, dict) and depth < 4:
        return ("dict",) + tuple((k, snap(v, depth + 1)) for k, v in obj.items())
    return ("other", repr(obj)[:200])


def describe_change(before, after):
    if before[0] != after[0]:
        return f"type {before[0]} -> {after[0]}"
    if before[0] == "ndpoly":
        names = ["kind", "shape", "strides", "struct dtype", "names", "keys", "dtype", "bytes", "exponents"]
    elif before[0] == "ndarray":
        names = ["kind", "shape", "strides", "dtype", "bytes"]
    else:
        for i, (b, a) in enumerate(zip(before[1:], after[1:])):
            if b != a:
                if isinstance(b, tuple) and isinstance(a, tuple) and b and a and isinstance(b[0], str):
                    return f"item {i}: " + describe_change(b, a)
                return f"item {i} changed"
        return "length changed"
    for n, b, a in zip(names, before, after):
        if b != a:
            return f"{n} changed" + (f" ({b} -> {a})" if n != "bytes" else "")
    return "changed"


def scribble(obj, depth=0):
    """overwrite every writable array reachable from a RESULT with a pattern (what a caller is free to do with an
    array that was handed to them); returns the number of arrays written"""
    n = 0
    if isinstance(obj, numpy.ndarray):
        raw = numpy.ndarray.view(obj, numpy.ndarray)
        if raw.flags.writeable and raw.size:
            try:
                if raw.dtype.names:
                    for name in raw.dtype.names:
                        raw[name] = 91
                elif raw.dtype == object:
                    raw[...] = None
                else:
                    raw[...] = 91 if raw.dtype.kind != "b" else True
                n += 1
            except Exception:  # noqa: BLE001
                pass
    elif isinstance(obj, (list, tuple)) and depth < 4:
        for x in obj:
            n += scribble(x, depth + 1)
    elif isinstance(obj, dict) and depth < 4:
        for x in obj.values():
            n += scribble(x, depth + 1)
    return n


def recall(R, op, label, f, got, tags=(), watched=None):
    """Two consecutive calls must not interact through the result of the first: overwrite `got` (the result of f()),
    then (a) every watched argument still has its bytes, (b) f() gives again what it gave the first time."""
    first = snap(got)
    before = {k: snap(v) for k, v in (watched or {}).items()}
    if not scribble(got):
        R.stat("result_not_writable")
        return
    R.tr()
    for k, v in (watched or {}).items():
        if snap(v) != before[k]:
            R.fail(op, "result-aliases-argument", f"{label}: writing to the result changed argument {k} ({describe_change(before[k], snap(v))})", tags=list(tags) + ["recall"])
            return
    try:
        again = f()
    except Exception as err:  # noqa: BLE001
        R.fail(op, "depends-on-earlier-result", f"{label}: after the caller overwrote the first result the same call raises {type(err).__name__}: {err}", tags=list(tags) + ["recall"])
        return
    if snap(again) != first:
        R.fail(op, "depends-on-earlier-result", f"{label}: after the caller overwrote the first result the same call returns something else "
               f"({describe_change(first, snap(again))})", tags=list(tags) + ["recall"])
