"""C01  Ring arithmetic on polynomial arrays is exact  (E1 input enumeration + E2 program search)."""
import itertools

import numpy

from .. import tree  # noqa: F401
import numpoly

from ..alpha import alpha, spec, wellformed, spec_of_model
from ..model import V, exact_scalar
from .. import space, ops

ID = "C01"
CASE_BUDGET_S = 600

BINOPS = ["add", "sub", "mul"]

META = {
    "rule": "complete enumeration of: all ordered pairs of U0 (154 polynomials, <=2 terms, degree<=2, 2 names) by scalar "
            "calls x {+,-,*}; all ordered pairs of U2 (3 names incl. q10) packed as A[:,None] op A[None,:]; all pairs "
            "over 8 name sets (equal/overlapping/disjoint, q10 vs q2); all broadcastable shape pairs x fillings x "
            "int/float/complex; every operand kind on either side; unary ops and numpy/numpoly spellings; ** with "
            "scalar exponents 0..5 and array exponents of every broadcastable shape; explicit-state search over "
            "programs (expression trees) from 12 atoms, states de-duplicated by model value. Every transition is "
            "judged by alpha(result)==model, broadcast shape and type. A state is distinct by its model value.",
    "bounds": lambda tier: {"U0": 154, "U2": len(space.U2()), "shapes": len(space.SHAPES),
                            "program_depth": 2 if tier == "quick" else 3,
                            "program_note": "depth 2 = every expression tree of depth<=2 over the atoms; depth 3 (thorough) "
                                            "= left/right-deep extension by an atom from every depth-2 state (seed slice in quick: none)"},
    "assumptions": ["dedup of program states by model value (the implementation agreed with the model on the "
                    "transition that produced the representative)",
                    "float/complex alphabets are dyadic, so exact equality is demanded"],
}


# ---------------------------------------------------------------------------------------------
def tags_of(node):
    """input-feature tags (computed from the input expression only)"""
    tags = set()
    if node.get("op") in ("pow", "np.power", "nl.power"):
        b = node["x"][1]
        if "s" in b or "ns" in b:
            tags.add("scalar_exponent")
        else:
            tags.add("array_exponent")
        try:
            mb, me = ops.eval_model(node["x"][0]), ops.eval_model(b)
            nd = len(numpy.broadcast_shapes(mb.shape, me.shape))
            tags.add(f"result_ndim={nd}")
            if mb.shape != me.shape:
                tags.add("base_exponent_shapes_differ")
        except Exception:  # noqa: BLE001
            pass
    return tags


REPLAY_OPTS = {}     # non-default options in force while a case runs (recorded in the replay file of a failing expression)


def judge(R, node, what, extra_check=None, cache=None):
    """evaluate node on the library and in the model and compare; -> (impl result | None, model)"""
    R.tr()
    try:
        expected = ops.eval_model(node)
    except Exception as err:  # noqa: BLE001
        raise RuntimeError(f"model cannot evaluate {node}: {err!r}")
    try:
        got = ops.eval_impl(node, cache)
    except tree_hang():
        raise
    except Exception as err:  # noqa: BLE001
        R.fail(what, "exception", f"{type(err).__name__}: {err} for {short(node)}", tags=tags_of(node),
               sub={"k": "expr", "e": node, "what": what, "opts": dict(REPLAY_OPTS)})
        return None, expected
    problems = []
    if not isinstance(got, numpoly.ndpoly):
        problems.append(f"result type {type(got).__name__}, expected ndpoly")
    else:
        if tuple(got.shape) != expected.shape:
            problems.append(f"shape {tuple(got.shape)} != broadcast shape {expected.shape}")
        else:
            try:
                a = alpha(got)
            except Exception as err:  # noqa: BLE001
                problems.append(f"result not readable: {type(err).__name__}: {err}")
            else:
                if a != expected:
                    problems.append(f"value {a!r} != expected {expected!r}")
        if extra_check:
            problems.extend(extra_check(got))
    if problems:
        R.fail(what, "wrong-value", "; ".join(problems)[:400] + f" for {short(node)}", tags=tags_of(node),
               sub={"k": "expr", "e": node, "what": what, "opts": dict(REPLAY_OPTS)})
        return None, expected
    R.outcome(expected.key())
    return got, expected


def tree_hang():
    from ..run import Hang
    return Hang


def short(node):
    if "op" in node:
        return f"{node['op']}(" + ", ".join(short(x) for x in node["x"]) + ")"
    if "p" in node:
        sp = node["p"]
        return f"P[{','.join(sp['n'])}|{tuple(sp['s'])}|{sp['d']}|{sp['t']}|{sp.get('v')}]"
    return str(node)


def P(sp):
    return {"p": sp}


# ---- input families ------------------------------------------------------------------------
def u0_specs():
    return [space.scalar_spec(("q0", "q1"), t) for t in space.U0()]


def names_pool():
    out = []
    for names in space.NAMESETS:
        k = len(names)
        first = tuple(1 if i == 0 else 0 for i in range(k))
        last = tuple(1 if i == k - 1 else 0 for i in range(k))
        last2 = tuple(2 * x for x in last)
        zero = (0,) * k
        both = tuple(min(1, a + b) for a, b in zip(first, last))
        polys = [[(first, 1)], [(last2, 1), (first, -1)], [(both, 2), (zero, 1)], [(last, -3), (zero, 2)]]
        for t in polys:
            t = list({e: c for e, c in t}.items())
            out.append(space.scalar_spec(names, t))
    return out


POOLS = {
    "int": ("i8", [[], [((0, 0), 1)], [((1, 0), 1)], [((0, 1), -1), ((0, 0), 2)], [((1, 1), 2), ((2, 0), -3)]]),
    "float": ("f8", [[], [((0, 0), 0.5)], [((1, 0), -1.5)], [((0, 1), 2.0), ((0, 0), 0.25)], [((1, 1), 0.5), ((2, 0), -1.5)]]),
    "complex": ("c16", [[], [((0, 0), 1j)], [((1, 0), -1 + 2j)], [((0, 1), 0.5 - 0.5j), ((0, 0), 1)], [((1, 1), 1j), ((2, 0), 2)]]),
}


def arr(shape, kind="int", rot=0, stride=1, names=("q0", "q1"), variant="canon"):
    dt, pool = POOLS[kind]
    if len(names) != 2:
        pool = [[(tuple(e) + (0,) * (len(names) - 2), c) for e, c in t] for t in pool]
    return space.array_spec(names, shape, space.fill(pool, shape, rot, stride), dt, variant)


def numeric_leaf(kind, shape, form):
    vals = {"int": [2, -1, 3, 0, 1, -2], "float": [0.5, -1.5, 2.0, 0.0, 0.25, 1.0],
            "complex": [1j, -1 + 2j, 0.5 - 0.5j, 0, 2, 1]}[kind]
    n = int(numpy.prod(shape)) if shape else 1
    flat = [vals[i % len(vals)] for i in range(n)]
    from ..alpha import enc_num
    if form == "pyscalar":
        return {"s": enc_num(flat[0])}
    if form == "npscalar":
        return {"ns": enc_num(flat[0]), "d": {"int": "i8", "float": "f8", "complex": "c16"}[kind]}
    nested = numpy.array(flat, dtype=object).reshape(shape).tolist()

    def enc(x):
        return [enc(y) for y in x] if isinstance(x, list) else enc_num(x)
    if form == "list":
        return {"l": enc(nested)}
    node = {"a": enc(nested), "d": {"int": "i8", "float": "f8", "complex": "c16"}[kind]}
    if ":" in form:
        node["o"] = form.split(":")[1]     # memory layout of the ndarray operand
    return node


ATOMS = None


def atoms():
    """the 12 atoms of the program search"""
    global ATOMS
    if ATOMS is None:
        s = space.scalar_spec
        ATOMS = [
            P(s(("q0",), [((0,), 1)])), P(s(("q0",), [((0,), -2)])), P(s(("q0",), [])),
            P(s(("q0",), [((1,), 1)])), P(s(("q1",), [((1,), 1)])), P(s(("q2", "q10"), [((1, 0), 1), ((0, 1), -1)])),
            P(s(("q0", "q1"), [((1, 1), 1), ((0, 0), 1)])),
            P(space.array_spec(("q0", "q1"), (2,), [[((1, 0), 1)], [((0, 1), 2), ((0, 0), -1)]])),
            P(space.array_spec(("q1", "q2"), (2, 1), [[((1, 0), 1), ((0, 1), 1)], [((0, 0), 3)]])),
            P(s(("q0",), [((1,), 0.5), ((0,), -1.5)], "f8")),
            P(s(("q1",), [((1,), 1j), ((0,), 1)], "c16")),
            {"s": 2},
        ]
    return ATOMS


PROG_OPS = [("add", 2), ("sub", 2), ("rsub", 2), ("mul", 2), ("neg", 1), ("pow0", 1), ("pow2", 1), ("pow3", 1)]


def prog_node(op, s, x):
    if op == "rsub":
        return {"op": "sub", "x": [x, s]}
    if op == "neg":
        return {"op": "neg", "x": [s]}
    if op.startswith("pow"):
        return {"op": "pow", "x": [s, {"s": int(op[3:])}]}
    return {"op": op, "x": [s, x]}


def within(v):
    if len(v.t) > 12 or v.degree() > 6:
        return False
    n = 1
    for k in v.shape:
        n *= k
    if n > 12:
        return False
    for c in v.t.values():
        for x in c.ravel().tolist():
            if abs(x) > 2 ** 40:
                return False
    return True


_STATES = {}


def program_states(depth):
    """model-side BFS: list of (expression tree, model value) for all distinct values reachable in
    <= depth steps; new states at level d use x from all states of level < d (bushy trees)."""
    if depth in _STATES:
        return _STATES[depth]
    if depth == 0:
        st = []
        seen = set()
        for a in atoms():
            v = ops.eval_model(a)
            if v.key() not in seen:
                seen.add(v.key())
                st.append((a, v))
        _STATES[0] = st
        return st
    prev = program_states(depth - 1)
    seen = {v.key() for _, v in prev}
    st = list(prev)
    for (se, sv) in prev:
        for op, ar in PROG_OPS:
            for (xe, xv) in (prev if ar == 2 else [(None, None)]):
                node = prog_node(op, se, xe)
                try:
                    v = ops.eval_model(node)
                except ValueError:
                    continue  # shapes do not broadcast
                if v.key() in seen or not within(v):
                    continue
                seen.add(v.key())
                st.append((node, v))
    _STATES[depth] = st
    return st


def cases(tier, seed):
    from .. import produced
    return _cases(tier, seed) + produced.case_list()


def _cases(tier, seed):
    out = []
    n0 = len(space.U0())
    for i in range(n0):
        out.append({"k": "u0row", "i": i})
    nu2 = len(space.U2())
    step = 8
    for op in BINOPS:
        for i0 in range(0, nu2, step):
            out.append({"k": "packed", "op": op, "i0": i0, "i1": min(nu2, i0 + step)})
    npool = len(names_pool())
    for i in range(npool):
        out.append({"k": "namesrow", "i": i})
    out.append({"k": "twins"})
    nw = len(space.wide_specs())
    for i in range(nw):
        out.append({"k": "wide", "i": i})
    for (sa, sb) in space.broadcastable_pairs(space.SHAPES):
        out.append({"k": "shapes", "a": list(sa), "b": list(sb)})
    for shape in space.SHAPES:
        out.append({"k": "kinds", "s": list(shape)})
        out.append({"k": "unary", "s": list(shape)})
        out.append({"k": "powscalar", "s": list(shape)})
    for i in range(0, n0, 11):
        out.append({"k": "powu0", "i0": i, "i1": min(n0, i + 11)})
    for (sa, sb) in space.broadcastable_pairs(space.SHAPES):
        out.append({"k": "powarray", "a": list(sa), "b": list(sb)})
    for i in range(8):
        out.append({"k": "powvalues", "first": i})
    for pre in ("z", "var", "x_"):
        out.append({"k": "naming", "pre": pre})
    # programs: every (state of depth<=1) as left operand; x ranges over all states of depth<=1
    n1 = len(program_states(1))
    for i in range(n1):
        out.append({"k": "prog", "depth": 2, "i": i})
    if tier == "thorough":
        n2 = len(program_states(2))
        for i in range(n1, n2):
            out.append({"k": "prog3", "i": i})
    return out


_CACHE = {}


def cached_impl(node, key):
    if key not in _CACHE:
        _CACHE[key] = ops.eval_impl(node)
    return _CACHE[key]


def run_case(case, R, extra_check=None):
    if case.get("k") == "produced":
        from .. import produced
        return produced.run(R, ID, case["i0"], case["i1"])
    REPLAY_OPTS.clear()
    try:
        return _run_case(case, R, extra_check)
    finally:
        REPLAY_OPTS.clear()


def _run_case(case, R, extra_check=None):
    k = case["k"]
    if k == "expr":
        with numpoly.global_options(**case.get("opts", {})):
            judge(R, case["e"], case.get("what", "expr"), extra_check)
    elif k == "u0row":
        specs = u0_specs()
        a = P(specs[case["i"]])
        R.state(("u0", case["i"]))
        for b in specs:
            for op in BINOPS:
                judge(R, {"op": op, "x": [a, P(b)]}, op, extra_check)
        R.sample({"pair": [short(a), short(P(specs[-1]))], "ops": BINOPS})
    elif k == "packed":
        u = space.U2()
        names = ("q0", "q2", "q10")
        A = P(space.packed_spec(names, u))
        B = P(space.packed_spec(names, u[case["i0"]:case["i1"]]))
        # B[:, None] op A[None, :] : all ordered pairs (rows i0..i1) x (all of U2) in ONE call
        R.tr()
        pa, pb = ops.leaf_impl(A), ops.leaf_impl(B)
        ma, mb = ops.leaf_model(A), ops.leaf_model(B)
        f = ops.IMPL[case["op"]]
        try:
            got = f(pb[:, None], pa[None, :])
        except Exception as err:  # noqa: BLE001
            R.fail(case["op"], "exception", f"packed pairs: {type(err).__name__}: {err}", tags=["packed"])
            return
        exp = ops.MODEL[case["op"]](mb[:, None], ma[None, :])
        ga = alpha(got) if isinstance(got, numpoly.ndpoly) else None
        if ga is None or ga != exp:
            # locate the first differing pair for the report
            where = "type" if ga is None else "shape"
            sub = None
            if ga is not None and ga.shape == exp.shape:
                ge, ee = ga.elements(), exp.elements()
                bad = numpy.argwhere(ge != ee)
                i, j = (int(x) for x in bad[0])
                where = f"pair ({case['i0'] + i},{j}): got {dict(ge[i, j])} expected {dict(ee[i, j])} ({len(bad)} pairs differ)"
                sub = {"k": "expr", "what": case["op"], "e": {"op": case["op"], "x": [
                    P(space.scalar_spec(names, u[case["i0"] + i])), P(space.scalar_spec(names, u[j]))]}}
            R.fail(case["op"], "wrong-value", "packed " + where, tags=["packed"], sub=sub)
        n = (case["i1"] - case["i0"]) * len(u)
        R.stat("packed_pairs", n)
        for i in range(case["i0"], case["i1"]):
            R.state(("u2", i))
        R.outcome(exp.key())
    elif k == "namesrow":
        pool = names_pool()
        a = P(pool[case["i"]])
        R.state(("names", case["i"]))
        for b in pool:
            for op in BINOPS:
                judge(R, {"op": op, "x": [a, P(b)]}, op, extra_check)
        R.sample({"pair": [short(a), short(P(pool[-1]))]})
    elif k == "wide":
        ws = space.wide_specs()
        la, sa_ = ws[case["i"]]
        R.state(("wide", la))
        for lb, sb_ in ws:
            judge(R, {"op": "add", "x": [P(sa_), P(sb_)]}, "add", extra_check)
            judge(R, {"op": "sub", "x": [P(sa_), P(sb_)]}, "sub", extra_check)
            if len(sa_["t"]) * len(sb_["t"]) <= 80:
                judge(R, {"op": "mul", "x": [P(sa_), P(sb_)]}, "mul", extra_check)
        judge(R, {"op": "mul", "x": [P(sa_), {"s": 3}]}, "mul", extra_check)
        judge(R, {"op": "neg", "x": [P(sa_)]}, "neg", extra_check)
        R.sample({"wide": la})
    elif k == "twins":
        # colliding inputs (same exponent bytes in another layout, same table under other names ...) combined one after
        # the other in one process: a result computed from state left behind by an earlier call disagrees with the model
        seq = space.twin_sequence()
        for i, (sa_, sb_) in enumerate(zip(seq, seq[1:] + seq[:1])):
            R.state(("twins", i))
            for op in BINOPS:
                judge(R, {"op": op, "x": [P(sa_), P(sb_)]}, op, extra_check)
            judge(R, {"op": "pow", "x": [P(sa_), {"s": 2}]}, "pow", extra_check)
            judge(R, {"op": "neg", "x": [P(sa_)]}, "neg", extra_check)
    elif k == "shapes":
        sa, sb = tuple(case["a"]), tuple(case["b"])
        R.state(("shapes", sa, sb))
        combos = [("int", "int"), ("int", "float"), ("float", "complex"), ("complex", "int")]
        for (ka, kb) in combos:
            for rot, stride in ((0, 1), (2, 1), (1, 2)):
                for va, vb in (("canon", "canon"), ("T", "slice"), ("unusedname", "zeroterm"), ("rev", "readonly")):
                    a = P(arr(sa, ka, rot, stride, variant=va))
                    b = P(arr(sb, kb, rot + 1, stride, names=("q1", "q2"), variant=vb))
                    for op in BINOPS:
                        judge(R, {"op": op, "x": [a, b]}, op, extra_check)
        R.sample({"shapes": [sa, sb], "example": short(P(arr(sa, "int")))[:200]})
    elif k == "kinds":
        shape = tuple(case["s"])
        R.state(("kinds", shape))
        for pk in ("int", "float", "complex"):
            p = P(arr(shape, pk, 1))
            for nk in ("int", "float", "complex"):
                for form in ("pyscalar", "npscalar", "array", "list", "array:F", "array:rev", "array:T", "array:ro"):
                    if form in ("array:F", "array:T") and len(shape) < 2 or form == "array:rev" and not shape:
                        continue
                    for nshape in ([()] if form.endswith("scalar") else [shape, shape[-1:], (1,) * len(shape)] if ":" not in form else [shape]):
                        if form == "list" and nshape == ():
                            continue
                        leaf = numeric_leaf(nk, nshape, form)
                        for op in BINOPS:
                            judge(R, {"op": op, "x": [p, leaf]}, op + ":" + form + "-right", extra_check)
                            judge(R, {"op": op, "x": [leaf, p]}, op + ":" + form + "-left", extra_check)
    elif k == "unary":
        shape = tuple(case["s"])
        R.state(("unary", shape))
        for pk in ("int", "float", "complex"):
            for var in ("canon", "T", "zeroterm", "rev", "readonly"):
                p = P(arr(shape, pk, 2, variant=var))
                for op in ("neg", "pos", "np.negative", "np.positive", "np.square", "nl.negative", "nl.positive",
                           "nl.square"):
                    judge(R, {"op": op, "x": [p]}, op, extra_check)
                for op in ("np.add", "np.subtract", "np.multiply", "nl.add", "nl.subtract", "nl.multiply"):
                    judge(R, {"op": op, "x": [p, P(arr(shape, "int", 0))]}, op, extra_check)
    elif k == "powscalar":
        shape = tuple(case["s"])
        R.state(("powscalar", shape))
        for pk in ("int", "float", "complex"):
            p = P(arr(shape, pk, 1))
            for e in range(0, 5):
                for op in ("pow", "np.power", "nl.power"):
                    judge(R, {"op": op, "x": [p, {"s": e}]}, op, extra_check)
                judge(R, {"op": "pow", "x": [p, {"ns": e, "d": "i8"}]}, "pow", extra_check)
    elif k == "powu0":
        specs = u0_specs()
        for i in range(case["i0"], case["i1"]):
            R.state(("powu0", i))
            for e in range(0, 6):
                judge(R, {"op": "pow", "x": [P(specs[i]), {"s": e}]}, "pow", extra_check)
    elif k == "powarray":
        sa, sb = tuple(case["a"]), tuple(case["b"])
        R.state(("powarray", sa, sb))
        n = int(numpy.prod(sb)) if sb else 1
        for rot in (0, 1, 3):
            evals = [[0, 1, 2, 3, 2, 1][(rot + i) % 6] for i in range(n)]
            e = {"a": numpy.array(evals).reshape(sb).tolist(), "d": "i8"}
            for pk in ("int", "float"):
                p = P(arr(sa, pk, rot))
                judge(R, {"op": "pow", "x": [p, e]}, "pow", extra_check)
            if rot == 0:
                judge(R, {"op": "np.power", "x": [P(arr(sa, "int", 1)), e]}, "np.power", extra_check)
                judge(R, {"op": "pow", "x": [P(arr(sa, "int", 1)), {"l": e["a"]}]} if sb else
                      {"op": "pow", "x": [P(arr(sa, "int", 1)), {"s": 2}]}, "pow", extra_check)
    elif k == "naming":
        # the ring operations under other naming options: indeterminates <prefix><number> with prefixes of 1-3 characters
        import re
        pre = case["pre"]
        R.state(("naming", pre))

        def ren(sp):
            return dict(sp, n=[pre + n[1:] for n in sp["n"]])
        REPLAY_OPTS.update(default_varname=pre, varname_filter=re.escape(pre) + r"\d+")
        with numpoly.global_options(**REPLAY_OPTS):
            for sa, sb in (((), ()), ((2,), (2,)), ((2, 1), (3,)), ((2, 2), ())):
                for names_b in (("q0", "q1"), ("q1", "q2"), ("q2", "q10")):
                    a = P(ren(arr(sa, "int", 0)))
                    b = P(ren(arr(sb, "float", 1, names=names_b)))
                    for op in BINOPS:
                        judge(R, {"op": op, "x": [a, b]}, op, extra_check)
                        judge(R, {"op": op, "x": [b, a]}, op, extra_check)
                    judge(R, {"op": "pow", "x": [b, {"s": 2}]}, "pow", extra_check)
                    judge(R, {"op": "neg", "x": [b]}, "neg", extra_check)
                for form in ("pyscalar", "array", "list"):
                    if form != "pyscalar" and not sa:
                        continue
                    leaf = numeric_leaf("int", () if form == "pyscalar" else sa, form)
                    a = P(ren(arr(sa, "int", 2, names=("q1", "q2"))))
                    for op in BINOPS:
                        judge(R, {"op": op, "x": [a, leaf]}, op + ":" + form + "-right", extra_check)
                        judge(R, {"op": op, "x": [leaf, a]}, op + ":" + form + "-left", extra_check)
    elif k == "powvalues":
        # exponent arrays: every ordered pair and triple over a menu of values on both sides of 8 and 16, as array and list
        menu = [0, 1, 2, 3, 7, 8, 9, 16]
        first = menu[case["first"]]
        R.state(("powvalues", first))
        base0 = P(space.scalar_spec(("q0", "q1"), [((1, 0), 1), ((0, 0), 1)]))
        base1 = P(space.array_spec(("q0", "q1"), (2,), [[((1, 0), 1), ((0, 0), 1)], [((0, 1), 1), ((0, 0), -2)]]))
        base2 = P(space.scalar_spec(("q0", "q1"), [((1, 0), 1), ((0, 1), -1)], "f8"))
        for second in menu:
            for base in (base0, base1, base2):
                judge(R, {"op": "pow", "x": [base, {"a": [first, second], "d": "i8"}]}, "pow", extra_check)
            judge(R, {"op": "pow", "x": [base0, {"l": [first, second]}]}, "pow", extra_check)
            judge(R, {"op": "nl.power", "x": [base0, {"a": [[first], [second]], "d": "i8"}]}, "nl.power", extra_check)
            for third in menu:
                judge(R, {"op": "pow", "x": [base0, {"a": [first, second, third], "d": "i8"}]}, "pow", extra_check)
        judge(R, {"op": "pow", "x": [base1, {"s": first}]}, "pow", extra_check)
    elif k == "prog":
        cache = {}
        states = program_states(1)
        se, sv = states[case["i"]]
        R.state(sv.key())
        for op, ar in PROG_OPS:
            for (xe, xv) in (states if ar == 2 else [(None, None)]):
                node = prog_node(op, se, xe)
                try:
                    v = ops.eval_model(node)
                except ValueError:
                    R.stat("not_broadcastable")
                    continue
                if not within(v):
                    R.stat("pruned_by_bound")
                    continue
                if not ops.has_poly(node):
                    continue  # plain Python arithmetic, numpoly not involved
                judge(R, node, "program:" + op, extra_check, cache)
                R.state(v.key())
        R.sample({"program_state": short(se)[:300]})
    elif k == "prog3":
        cache = {}
        states = program_states(2)
        se, sv = states[case["i"]]
        R.state(sv.key())
        base = program_states(0)
        for op, ar in PROG_OPS:
            for (xe, xv) in (base if ar == 2 else [(None, None)]):
                node = prog_node(op, se, xe)
                try:
                    v = ops.eval_model(node)
                except ValueError:
                    continue
                if not within(v):
                    R.stat("pruned_by_bound")
                    continue
                if not ops.has_poly(node):
                    continue
                judge(R, node, "program3:" + op, extra_check, cache)
                R.state(v.key())
    else:
        raise KeyError(k)
