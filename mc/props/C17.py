"""C17  Operations never modify their arguments (snapshot monitor x catalogue x aliasing-prone operands)."""
import io
import itertools
import signal
import pickle
import copy

import numpy

from .. import tree  # noqa: F401
import numpoly

from ..alpha import build_checked, spec, raw_view
from ..snap import snap, describe_change
from .. import space

ID = "C17"
CASE_BUDGET_S = 900
CALL_BUDGET_S = 4

META = {
    "rule": "every numpy callable registered by numpoly (function and ufunc registries, read at run time) x 14 generic "
            "argument patterns, every numpoly poly-function / constructor / operator / method / property, pickling and str, "
            "x 21 operand forms chosen to make internal aliasing possible (operands already aligned with each other, the "
            "identical object passed twice, overlapping views of one buffer, 0-d, transposed views, bool/int/float/complex "
            "dtypes, polynomial mixed with ndarray/list); byte-level snapshots of every argument are compared before and "
            "after each call, whether it returned or raised; out= targets and the copyto destination are the only exemption "
            "and must be the only thing that changed. Every keyword parameter of every registered implementation and public "
            "numpoly function is exercised with a menu of values chosen by the kind of its default (bool flipped, None -> 16 "
            "values, int, float, str menus), and display runs under 7 numpy print-option environments. distinct = (callable, "
            "pattern, operand form).",
    "bounds": {"operand_forms": 24, "patterns": 14, "keyword_menu_values": 16, "print_environments": 7},
    "assumptions": ["an argument is observed through shape, strides, dtype, names, keys and raw bytes (base-class view)"],
}

DENSE = [(0, 0), (0, 1), (1, 0), (2, 0)]   # the storage order the library itself produces (numpy.unique on rows)


def dense(shape, dtype, base, names=("q0", "q1"), variant="canon"):
    n = int(numpy.prod(shape)) if shape else 1
    terms = []
    for k, e in enumerate(DENSE):
        if dtype == "?":
            col = [bool((i + k + base) % 2) for i in range(n)]
        elif dtype == "c16":
            col = [complex((i + k + base) % 3 - 1, (i + base) % 2) for i in range(n)]
        elif dtype == "f8":
            col = [((i + 2 * k + base) % 5 - 2) * 0.5 for i in range(n)]
        else:
            col = [(i + 2 * k + base) % 5 - 2 for i in range(n)]
        terms.append((e, col))
    return spec(names, shape, terms, dtype, variant)


def operand_forms():
    """-> list of (label, maker) ; maker() -> (a, b) fresh each call"""
    forms = []

    def pair(shape, dtype, variant="canon"):
        return lambda: (build_checked(dense(shape, dtype, 0, variant=variant)), build_checked(dense(shape, dtype, 1, variant=variant)))
    forms.append(("aligned int (3,)", pair((3,), "i8")))
    forms.append(("aligned bool (3,)", pair((3,), "?")))
    forms.append(("aligned float (2,2)", pair((2, 2), "f8")))
    forms.append(("aligned complex 0-d", pair((), "c16")))
    forms.append(("aligned int (2,2) T views", pair((2, 2), "i8", "T")))
    forms.append(("aligned int (3,) terms stored unsorted", pair((3,), "i8", "unsorted")))
    forms.append(("aligned float (2,2) unsorted, zero term, unused name", pair((2, 2), "f8", "unsorted+zeroterm+unusedname")))

    def unsorted():
        a, b = pair((3,), "i8")()
        return numpy.ndarray.__getitem__(a, slice(None)), b
    forms.append(("aligned int (3,), a view of a", unsorted))

    def aligned_by_library():
        a0 = build_checked(spec(("q0", "q1"), (3,), [((1, 0), [1, 2, 3]), ((0, 0), [0, 1, 0])]))
        b0 = build_checked(spec(("q1", "q2"), (3,), [((1, 1), [1, 0, 2]), ((0, 2), [0, 1, 1])]))
        return numpoly.align_polynomials(a0, b0)
    forms.append(("outputs of align_polynomials", aligned_by_library))

    def noconst():
        t = [((1, 0), [1, 2, 3]), ((1, 1), [2, 0, -1]), ((2, 0), [0, 1, 1])]
        u = [((1, 0), [3, 1, 2]), ((1, 1), [1, 1, 0]), ((2, 0), [2, 0, 5])]
        return build_checked(spec(("q0", "q1"), (3,), t)), build_checked(spec(("q0", "q1"), (3,), u))
    forms.append(("aligned, every term contains q0 (no constant term)", noconst))

    def monomials():
        return build_checked(spec(("q0", "q1"), (), [((2, 1), 3.0)], "f8")), build_checked(spec(("q0", "q1"), (), [((2, 1), -1.5)], "f8"))
    forms.append(("single monomials 0-d float", monomials))

    def monomial_arrays(dtype, exps):
        vals = ([1, 2, 3], [3, 0, -1]) if dtype == "i8" else ([0.5, 2.0, -3.0], [1.5, 0.0, -1.0])
        return lambda: (build_checked(spec(("q0", "q1"), (3,), [(exps, vals[0])], dtype)), build_checked(spec(("q0", "q1"), (3,), [(exps, vals[1])], dtype)))
    forms.append(("arrays whose elements all consist of the one term q0**2*q1, int", monomial_arrays("i8", (2, 1))))
    forms.append(("arrays of one term q0, float", monomial_arrays("f8", (1, 0))))
    forms.append(("constant arrays (one constant term), int", monomial_arrays("i8", (0, 0))))

    def same():
        a = build_checked(dense((3,), "i8", 0))
        return a, a
    forms.append(("identical object twice", same))

    def views():
        base = build_checked(dense((4,), "i8", 0))
        return numpy.ndarray.__getitem__(base, slice(0, 3)), numpy.ndarray.__getitem__(base, slice(1, 4))
    forms.append(("overlapping views of one buffer", views))

    def magnitudes():
        t = [((0, 0), [1e-12, 3.5, -1e-300]), ((1, 0), [1e300, 1e-9, 0.25]), ((0, 2), [5e-324, -2.0, 1e-15])]
        u = [((0, 0), [1e-9j, 1.0, 2e-20]), ((1, 0), [1e-30, 1e-9, 1e5j]), ((0, 2), [1.0, 1e-13 + 1e-13j, 0.5])]
        return build_checked(spec(("q0", "q1"), (3,), t, "f8")), build_checked(spec(("q0", "q1"), (3,), u, "c16"))
    forms.append(("float/complex coefficients from 5e-324 to 1e300", magnitudes))

    def nonfinite():
        t = [((0, 0), [float("inf"), 3.5, float("nan")]), ((1, 0), [1.0, -float("inf"), 0.25]), ((0, 2), [float("nan"), -2.0, 1.0])]
        u = [((0, 0), [1.0, float("inf"), 2.0]), ((1, 0), [float("nan"), 1.0, -float("inf")]), ((0, 2), [1.0, 0.0, float("inf")])]
        from ..alpha import build
        return build(spec(("q0", "q1"), (3,), t, "f8")), build(spec(("q0", "q1"), (3,), u, "f8"))
    forms.append(("aligned float with inf and nan coefficients", nonfinite))

    # operands of different rank: missing leading unit axes, genuine broadcasting, 0-d against an array
    def ranks(sa, sb, dtype="i8"):
        return lambda: (build_checked(dense(sa, dtype, 0)), build_checked(dense(sb, dtype, 1)))
    forms.append(("aligned int (3,) with (1,3)", ranks((3,), (1, 3))))
    forms.append(("aligned int (1,1,2) with (2,)", ranks((1, 1, 2), (2,))))
    forms.append(("aligned float (3,) with (2,3)", ranks((3,), (2, 3), "f8")))
    forms.append(("aligned int (1,) with ()", ranks((1,), ())))

    def mixed():
        return build_checked(dense((3,), "i8", 0)), numpy.array([1, 0, 2])
    forms.append(("poly and ndarray", mixed))

    def mixed2():
        return build_checked(dense((2,), "f8", 0, names=("q1", "q2"))), [1.5, 2.0]
    forms.append(("poly and list", mixed2))
    return forms


def patterns():
    """generic call patterns: (label, g(f, a, b))"""
    return [
        ("(a)", lambda f, a, b: f(a)), ("(a,b)", lambda f, a, b: f(a, b)), ("(b,a)", lambda f, a, b: f(b, a)),
        ("(a,a)", lambda f, a, b: f(a, a)), ("(a,2)", lambda f, a, b: f(a, 2)), ("(2,a)", lambda f, a, b: f(2, a)),
        ("(a,axis=0)", lambda f, a, b: f(a, axis=0)), ("(a,0,-1)", lambda f, a, b: f(a, 0, -1)),
        ("([a,b])", lambda f, a, b: f([a, b])), ("([a,b],axis=-1)", lambda f, a, b: f([a, b], axis=-1)),
        ("(mask,a,b)", lambda f, a, b: f(numpy.arange(numpy.shape(a)[-1] if numpy.ndim(a) else 1) % 2 == 0, a, b)),
        ("(a,b,a)", lambda f, a, b: f(a, b, a)), ("(a,(2,))", lambda f, a, b: f(a, (2,))), ("(a,[0])", lambda f, a, b: f(a, [0])),
    ]


NPOS = {"(a)": 1, "(a,b)": 2, "(b,a)": 2, "(a,a)": 2, "(a,b,a)": 3, "(mask,a,b)": 3}


def hits_out(f, nl, plabel):
    """would this pattern pass an array in the position of the `out` parameter?"""
    n = NPOS.get(plabel)
    if n is None:
        return False
    if isinstance(f, numpy.ufunc):
        return n > f.nin
    import inspect
    for g in (nl, f):
        try:
            params = list(inspect.signature(g).parameters)
        except (TypeError, ValueError):
            continue
        return "out" in params[:n]
    return False


def registry():
    out = {}
    for coll in (numpoly.FUNCTION_COLLECTION, numpoly.UFUNC_COLLECTION):
        for key in coll:
            mod = getattr(key, "__module__", "") or ""
            name = getattr(key, "__name__", repr(key))
            if isinstance(key, numpy.ufunc) or mod.startswith("numpy"):
                out[name] = key
    out.pop("save", None), out.pop("savez", None), out.pop("savez_compressed", None), out.pop("savetxt", None)
    out.pop("load", None), out.pop("loadtxt", None), out.pop("copyto", None)
    return out


def _save_load(a):
    f = io.BytesIO()
    numpoly.save(f, a)
    f.seek(0)
    return numpoly.load(f)


def _savetxt_loadtxt(a):
    f = io.StringIO()
    numpoly.savetxt(f, a)
    f.seek(0)
    return numpoly.loadtxt(f)


def extra_calls():
    """numpoly-specific callables: (label, g(a, b))"""
    q = lambda: numpoly.variable(2)  # noqa: E731
    calls = [
        ("a+b", lambda a, b: a + b), ("a-b", lambda a, b: a - b), ("a*b", lambda a, b: a * b), ("-a", lambda a, b: -a),
        ("a**2", lambda a, b: a ** 2), ("a==b", lambda a, b: a == b), ("a!=b", lambda a, b: a != b), ("a<b", lambda a, b: a < b),
        ("a>=b", lambda a, b: a >= b), ("a/2", lambda a, b: a / 2), ("a%b", lambda a, b: a % numpoly.polynomial(b)),
        ("divmod(a,q0)", lambda a, b: divmod(a, numpoly.symbols("q0"))), ("a@b", lambda a, b: a @ b),
        ("poly_divide", lambda a, b: numpoly.poly_divide(a, 2)), ("poly_divmod(a, q0+1)", lambda a, b: numpoly.poly_divmod(a, numpoly.symbols("q0") + 1)),
        ("poly_remainder", lambda a, b: numpoly.poly_remainder(a, numpoly.symbols("q0") ** 2)),
        ("call(1,2)", lambda a, b: a(1, 2)), ("call(q0=b)", lambda a, b: a(q0=b)), ("call(q1=3)", lambda a, b: a(q1=3)),
        ("call(b, a)", lambda a, b: a(b, a)),
        ("numpoly.call(a,(1,),{q1:2})", lambda a, b: numpoly.call(a, (1,), {"q1": 2})),
        ("derivative", lambda a, b: numpoly.derivative(a, "q0")), ("derivative q1", lambda a, b: numpoly.derivative(a, "q1")),
        ("derivative twice", lambda a, b: numpoly.derivative(a, 0, 0)), ("gradient", lambda a, b: numpoly.gradient(a)),
        ("hessian", lambda a, b: numpoly.hessian(a)),
        ("lead_exponent", lambda a, b: numpoly.lead_exponent(a)), ("lead_coefficient", lambda a, b: numpoly.lead_coefficient(a)),
        ("decompose", lambda a, b: numpoly.decompose(a)), ("set_dimensions 3", lambda a, b: numpoly.set_dimensions(a, 3)),
        ("set_dimensions 1", lambda a, b: numpoly.set_dimensions(a, 1)), ("sortable_proxy", lambda a, b: numpoly.sortable_proxy(a)),
        ("tonumpy", lambda a, b: numpoly.tonumpy(a)), ("isconstant", lambda a, b: numpoly.isconstant(a)),
        ("align_polynomials", lambda a, b: numpoly.align_polynomials(a, b)), ("align_shape", lambda a, b: numpoly.align_shape(a, b)),
        ("align_indeterminants", lambda a, b: numpoly.align_indeterminants(a, b)), ("align_exponents", lambda a, b: numpoly.align_exponents(a, b)),
        ("polynomial(a)", lambda a, b: numpoly.polynomial(a)), ("aspolynomial(a)", lambda a, b: numpoly.aspolynomial(a)),
        ("polynomial([a,b])", lambda a, b: numpoly.polynomial([a, b])), ("clean_attributes", lambda a, b: numpoly.clean_attributes(a)),
        ("polynomial(a, dtype=float)", lambda a, b: numpoly.polynomial(a, dtype=float)),
        ("from_attributes", lambda a, b: numpoly.polynomial_from_attributes(a.exponents, a.coefficients, a.names)),
        ("astype", lambda a, b: a.astype(float)), ("copy", lambda a, b: a.copy()), ("ravel", lambda a, b: a.ravel()),
        ("flatten", lambda a, b: a.flatten()), ("round", lambda a, b: a.round(1)), ("max", lambda a, b: a.max()),
        ("min", lambda a, b: a.min()), ("mean", lambda a, b: a.mean()), ("sum", lambda a, b: a.sum()), ("prod", lambda a, b: a.prod()),
        ("cumsum", lambda a, b: a.cumsum()), ("any", lambda a, b: a.any()), ("all", lambda a, b: a.all()),
        ("reshape", lambda a, b: a.reshape(-1)), (".T", lambda a, b: a.T), ("diagonal", lambda a, b: a.diagonal()),
        ("coefficients", lambda a, b: a.coefficients), ("exponents", lambda a, b: a.exponents), ("values", lambda a, b: a.values),
        ("indeterminants", lambda a, b: a.indeterminants), ("flat", lambda a, b: a.flat), ("names", lambda a, b: a.names),
        ("todict", lambda a, b: a.todict()), ("a[0]", lambda a, b: a[0]), ("a[::-1]", lambda a, b: a[::-1]), ("iter", lambda a, b: list(a)),
        ("str", lambda a, b: str(a)), ("repr", lambda a, b: repr(a)), ("pickle", lambda a, b: pickle.loads(pickle.dumps(a))),
        ("copy.copy", lambda a, b: copy.copy(a)), ("deepcopy", lambda a, b: copy.deepcopy(a)),
        ("to_sympy", lambda a, b: numpoly.to_sympy(a)),
        ("savetxt", lambda a, b: numpoly.savetxt(io.StringIO(), a)), ("numpy.savetxt", lambda a, b: numpy.savetxt(io.StringIO(), a)),
        ("savetxt fmt", lambda a, b: numpoly.savetxt(io.StringIO(), a, fmt="%g", header="h", delimiter=",")),
        ("save", lambda a, b: numpoly.save(io.BytesIO(), a)), ("savez", lambda a, b: numpoly.savez(io.BytesIO(), a, b=b)),
        ("savez_compressed", lambda a, b: numpoly.savez_compressed(io.BytesIO(), x=a)), ("numpy.save", lambda a, b: numpy.save(io.BytesIO(), a)),
        ("save and load", lambda a, b: _save_load(a)), ("savetxt and loadtxt", lambda a, b: _savetxt_loadtxt(a)), ("bool(any)", lambda a, b: bool(numpoly.any(a))),
        ("unsupported fft", lambda a, b: numpy.fft.fft(a)), ("unsupported sin", lambda a, b: numpy.sin(a)),
        ("bad call kw", lambda a, b: a(q9=1)), ("bad shapes", lambda a, b: a + numpy.ones((5, 7))),
        ("true_divide by nonconstant", lambda a, b: numpy.true_divide(a, numpoly.symbols("q0"))),
        ("maximum", lambda a, b: numpoly.maximum(a, b)), ("minimum", lambda a, b: numpoly.minimum(a, b)),
        ("where(mask,a,b)", lambda a, b: numpoly.where(numpy.arange(numpy.shape(a)[-1] if numpy.ndim(a) else 1) % 2 == 0, a, b)),
        ("where(a)", lambda a, b: numpoly.where(a)), ("count_nonzero", lambda a, b: numpoly.count_nonzero(a)),
        ("nonzero", lambda a, b: numpoly.nonzero(a)), ("isclose", lambda a, b: numpoly.isclose(a, b)), ("allclose", lambda a, b: numpoly.allclose(a, b)),
        ("logical_or", lambda a, b: numpoly.logical_or(a, b)), ("logical_and", lambda a, b: numpoly.logical_and(a, b)),
        ("sum(axis)", lambda a, b: numpoly.sum(a, axis=0)), ("inner", lambda a, b: numpoly.inner(a, b)), ("outer", lambda a, b: numpoly.outer(a, b)),
        ("concatenate", lambda a, b: numpoly.concatenate([a, b])), ("stack", lambda a, b: numpoly.stack([a, b])),
        ("broadcast_arrays", lambda a, b: numpoly.broadcast_arrays(a, b)), ("diff(prepend)", lambda a, b: numpoly.diff(a, prepend=b)),
        ("choose", lambda a, b: numpoly.choose([0], a)), ("repeat", lambda a, b: numpoly.repeat(a, 2, axis=0)), ("tile", lambda a, b: numpoly.tile(a, 2)),
    ]
    return calls


KW_MENU = {
    bool: [True, False],
    type(None): [True, False, 0, 1, -1, 2, (0,), (0, 1), "C", "F", "K", "unsafe", 1e-3, "i8", float, "q1"],
    int: [0, 1, 2, -1, 3],
    float: [0.0, 1e-3, 1.0, 1e10],
    str: ["C", "F", "K", "A", "unsafe", "same_kind", "left", "right", "raise", "wrap", "clip", "q0", ", "],
}
SKIP_KW = {"out", "where"}   # explicit output targets / masks are the business of the "targets" case


def keyword_calls():
    """every keyword parameter of every registered implementation and every public numpoly function, with a small
    menu of values per kind of default -> (label, g(a, b))"""
    import inspect
    funcs = {}
    for coll in (numpoly.FUNCTION_COLLECTION, numpoly.UFUNC_COLLECTION):
        for key, impl in coll.items():
            funcs[getattr(key, "__name__", repr(key))] = impl
    for nm in dir(numpoly):
        obj = getattr(numpoly, nm)
        if inspect.isfunction(obj) and not nm.startswith("_") and nm not in funcs:
            funcs[nm] = obj
    for nm in ("save", "savez", "savez_compressed", "savetxt", "load", "loadtxt", "copyto", "set_options", "global_options", "get_options"):
        funcs.pop(nm, None)
    out = []
    for nm in sorted(funcs):
        f = funcs[nm]
        try:
            params = list(inspect.signature(f).parameters.values())
        except (TypeError, ValueError):
            continue
        required = [p for p in params if p.default is inspect.Parameter.empty and p.kind in (p.POSITIONAL_ONLY, p.POSITIONAL_OR_KEYWORD)]
        if len(required) > 2 or not required:
            continue
        for p in params:
            if p.default is inspect.Parameter.empty or p.name in SKIP_KW or p.kind in (p.VAR_KEYWORD, p.VAR_POSITIONAL):
                continue
            menu = KW_MENU.get(type(p.default))
            if menu is None:
                continue
            for val in menu:
                if val == p.default and type(val) is type(p.default):
                    continue
                if len(required) == 1:
                    out.append((f"{nm}(a, {p.name}={val!r})", lambda a, b, f=f, k=p.name, v=val: f(a, **{k: v})))
                else:
                    out.append((f"{nm}(a, b, {p.name}={val!r})", lambda a, b, f=f, k=p.name, v=val: f(a, b, **{k: v})))
    return out


PRINT_ENVS = [{"suppress": True}, {"precision": 2}, {"threshold": 2, "edgeitems": 1}, {"linewidth": 20}, {"suppress": True, "precision": 12},
              {"floatmode": "fixed"}, {"sign": "+"}]


def rawarg_calls():
    """calls whose arguments are plain arrays / lists / dicts handed over by reference -> (label, maker) with
    maker() -> (dict of watched arguments, thunk)"""
    out = []
    q = numpoly.variable(2)
    base = numpoly.polynomial([q[0] + 1, q[1] ** 2, q[0] * q[1] - 2])

    def add(label, maker):
        out.append((label, maker))
    # index / selector arrays of every integer flavour, in and out of range
    for dt in ("i8", "i4", "u1", "i2"):
        for vals in ([1, 0, 2], [5, 0, 2], [2, 4, 7]) + (([-1, 0, -5],) if dt[0] == "i" else ()):
            for mode in ("raise", "wrap", "clip"):
                for sp_, mod in (("numpoly", numpoly), ("numpy", numpy)):
                    def mk(dt=dt, vals=vals, mode=mode, mod=mod):
                        idx = numpy.array(vals, dtype=dt)
                        ch = [base, base * 2, base - 1]
                        return {"index": idx, "c0": ch[0], "c1": ch[1], "c2": ch[2]}, lambda: mod.choose(idx, ch, mode=mode)
                    add(f"{sp_}.choose({dt}{vals}, mode={mode})", mk)
    # exponent tables / coefficient lists / names handed to the constructors
    for edt, order in (("u4", "C"), ("u4", "F"), ("i8", "C"), ("u2", "C"), ("list", "C")):
        def exps(edt=edt, order=order):
            e = [[0, 0], [0, 1], [1, 1], [2, 0]]
            return e if edt == "list" else numpy.array(e, dtype=edt, order=order)
        def mk_nd(exps=exps):
            e = exps()
            return {"exponents": e}, lambda: numpoly.ndpoly(exponents=e, shape=(2,), names=("q0", "q1"))
        add(f"ndpoly(exponents={edt}/{order})", mk_nd)
        for rc in (None, True, False):
            for rn in (None, True, False):
                def mk_fa(exps=exps, rc=rc, rn=rn):
                    e = exps()
                    c = [numpy.array([1, 2]), numpy.array([0, 0]), numpy.array([3, 0]), numpy.array([0, 5])]
                    nm = ["q0", "q1"]
                    kw = {k_: v_ for k_, v_ in (("retain_coefficients", rc), ("retain_names", rn)) if v_ is not None}
                    return {"exponents": e, "coefficients": c, "names": nm}, lambda: numpoly.polynomial_from_attributes(e, c, nm, **kw)
                add(f"polynomial_from_attributes(exponents={edt}/{order}, retain_coefficients={rc}, retain_names={rn})", mk_fa)
        def mk_fa2(exps=exps):
            e = exps()
            c = numpy.array([[1, 2], [0, 0], [3, 0], [0, 5]])
            return {"exponents": e, "coefficients": c}, lambda: numpoly.ndpoly.from_attributes(e, c, "q", retain_coefficients=True)
        add(f"ndpoly.from_attributes(exponents={edt}/{order}, 2-d coefficient array)", mk_fa2)

    def mk_dict():
        d = {(0, 1): numpy.array([1, 2]), (2, 0): numpy.array([0, 3]), (0, 0): numpy.array([0, 0])}
        return {"dict": d}, lambda: numpoly.polynomial(d)
    add("polynomial(dict of arrays)", mk_dict)

    def mk_raw():
        raw = numpy.array(numpy.ndarray.view(base, numpy.ndarray))
        return {"raw": raw}, lambda: numpoly.polynomial(raw, names=("q0", "q1"))
    add("polynomial(structured array)", mk_raw)
    for order in ("C", "F"):
        def mk_arr(order=order):
            a = numpy.array([[1.5, 2.0], [0.0, -1.0]], order=order)
            return {"array": a}, lambda: (numpoly.polynomial(a), numpoly.aspolynomial(a), a + base[:2], a * base[:2], base[:2] - a)
        add(f"numeric array {order} through constructors and operators", mk_arr)
    # polynomials that only DESIGNATE something: the differentiation variable, the names argument
    def mk_desig():
        q0_, q1_ = numpoly.variable(2)
        sym = numpoly.symbols("q1")
        ind = base.indeterminants
        return ({"p": base, "q0": q0_, "q1": q1_, "symbols(q1)": sym, "indeterminants": ind},
                lambda: (numpoly.derivative(base, q1_), numpoly.derivative(base, q0_, q1_), numpoly.derivative(base, sym), numpoly.derivative(base, ind[0]),
                         numpoly.derivative(base, q1_, 0), numpoly.polynomial(base, names=ind), numpoly.aspolynomial(base, names=ind),
                         numpoly.polynomial_from_attributes(base.exponents, base.coefficients, ind), numpoly.set_dimensions(q1_, 3), base(q0=q1_), base(q1_, q0_)))
    add("designator polynomials (derivative, names=)", mk_desig)

    def mk_names():
        for nm in ("q1", "q", ["q3", "q4"]):
            try:
                numpoly.aspolynomial(base, names=nm)
            except Exception:  # noqa: BLE001
                pass
        return None
    add("aspolynomial(p, names=<one string / list>)", lambda: ({"p": base}, mk_names))

    # evaluation arguments
    def mk_call():
        a1, a2 = numpy.array([1, 2, 3]), numpy.array([[0.5], [2.0]])
        kw = {"q1": a2}
        args = (a1,)
        return {"a1": a1, "a2": a2, "kwargs": kw, "args": args, "p": base}, lambda: (base(a1, a2), base(a1, q1=a2), numpoly.call(base, args, kw), base(q0=a1))
    add("evaluation at arrays", mk_call)
    # selectors, masks, repeats, sections
    def mk_sel():
        mask = numpy.array([True, False, True])
        reps = numpy.array([2, 0, 1])
        sect = numpy.array([1, 2])
        shape = [3, 1]
        axes = [0]
        return ({"mask": mask, "repeats": reps, "sections": sect, "shape": shape, "axes": axes, "p": base},
                lambda: (numpoly.where(mask, base, 0), base[mask], numpoly.repeat(base, reps, axis=0), numpoly.split(base, sect), numpoly.array_split(base, sect),
                         numpoly.reshape(base, shape), numpoly.sum(base, axis=tuple(axes)), numpoly.expand_dims(base, axes), numpoly.tile(base, shape),
                         numpoly.diff(base, prepend=reps), numpoly.ediff1d(base, to_end=reps), base[sect], base[list(sect)], numpoly.compress(mask, base) if hasattr(numpoly, "compress") else None))
    add("masks, repeats, sections, shapes, axes", mk_sel)
    # index generation and sorting
    def mk_idx():
        keys = numpy.array([[2, 0, 1, 1], [0, 2, 1, 0]], dtype="u4")
        start, stop = numpy.array([0, 1]), numpy.array([3, 4])
        grid = numpy.array(list(itertools.product(range(3), repeat=2)))
        bound = numpy.array([2, 1])
        norm = numpy.array([0.5, 2.0])
        return ({"keys": keys, "start": start, "stop": stop, "grid": grid, "bound": bound, "norm": norm},
                lambda: (numpoly.glexsort(keys), numpoly.glexsort(keys, graded=True, reverse=True), numpoly.glexindex(start, stop), numpoly.glexindex(start, stop, cross_truncation=norm),
                         numpoly.bindex(start, stop), numpoly.cross_truncate(grid, bound, 1.0), numpoly.cross_truncate(grid, bound, norm[0]), numpoly.monomial(start, stop)))
    add("glexsort / glexindex / bindex / cross_truncate / monomial", mk_idx)
    return out


def cases(tier, seed):
    out = []
    nraw = len(rawarg_calls())
    for i0 in range(0, nraw, 40):
        out.append({"k": "rawargs", "i0": i0, "i1": min(nraw, i0 + 40)})
    nforms = len(operand_forms())
    names = sorted(registry())
    nkw = len(keyword_calls())
    for fi in range(nforms):
        for i0 in range(0, nkw, 400):
            out.append({"k": "keywords", "form": fi, "i0": i0, "i1": min(nkw, i0 + 400)})
        out.append({"k": "printing", "form": fi})
        for ci, i0 in enumerate(range(0, len(names), 6)):
            if tier == "quick" and fi >= 14 and (ci + fi) % 2:
                continue     # quick: the operand forms added later sweep alternating halves of the registry (thorough: all of it)
            out.append({"k": "registry", "form": fi, "i0": i0, "i1": min(len(names), i0 + 6)})
        out.append({"k": "extra", "form": fi})
        out.append({"k": "targets", "form": fi})
    out.sort(key=lambda c: {"registry": 0, "keywords": 1, "extra": 2}.get(c["k"], 3))   # the expensive kinds first
    return out


def observe(R, label, form_label, args, call, exempt=()):
    """args: dict name -> object to snapshot; exempt: names of explicit output targets"""
    R.tr()
    before = {k: snap(v) for k, v in args.items()}
    raised = None
    from ..run import Hang
    remaining = signal.setitimer(signal.ITIMER_REAL, CALL_BUDGET_S, 2.0)[0]
    try:
        call()
    except Hang:
        # non-termination is the business of C05; here the call counts as "raised" and the
        # arguments must still be untouched
        raised = "Hang"
        R.stat("call_hung")
    except BaseException as err:  # noqa: BLE001
        if isinstance(err, (KeyboardInterrupt, SystemExit)):
            raise
        raised = type(err).__name__
    finally:
        signal.setitimer(signal.ITIMER_REAL, max(1.0, remaining - CALL_BUDGET_S) if remaining else 0, 2.0)
    after = {k: snap(v) for k, v in args.items()}
    R.stat("raised" if raised else "returned")
    for k in args:
        if k in exempt:
            continue
        if before[k] != after[k]:
            R.fail(label.split(" ")[0], "argument-modified",
                   f"{label} on operands '{form_label}': argument {k} was modified ({describe_change(before[k], after[k])})"
                   + (f"; the call raised {raised}" if raised else ""),
                   tags=[f"form={form_label}", "raised" if raised else "returned"])
            return
    R.outcome((label, form_label, raised))


def run_case(case, R):
    if case["k"] == "rawargs":
        R.state(("rawargs", case["i0"]))
        for label, maker in rawarg_calls()[case["i0"]:case["i1"]]:
            watched, thunk = maker()
            observe(R, label, "plain arguments", watched, thunk)
        return
    forms = operand_forms()
    flabel, maker = forms[case["form"]]
    R.state((case["k"], case["form"], case.get("i0", 0)))
    if case["k"] == "registry":
        reg = registry()
        names = sorted(reg)[case["i0"]:case["i1"]]
        for name in names:
            f = reg[name]
            for plabel, g in patterns():
                for spelling, fn in (("numpy", f), ("numpoly", getattr(numpoly, name, None))):
                    if fn is None:
                        continue
                    if name in ("array_repr", "array_str") and NPOS.get(plabel, 1) > 1:
                        continue  # the extra positional parameters are integers (numpy itself decrements an array given as max_line_width in place)
                    if hits_out(fn if spelling == "numpoly" else f, getattr(numpoly, name, None), plabel):
                        R.stat("pattern_hits_out_parameter")
                        continue  # the array would be passed as the explicit output target
                    a, b = maker()
                    observe(R, f"{name} {spelling}{plabel}", flabel, {"a": a, "b": b}, lambda: g(fn, a, b))
            if isinstance(f, numpy.ufunc) and f.nin == 2:
                for meth in ("reduce", "accumulate", "outer"):
                    a, b = maker()
                    observe(R, f"{name}.{meth}", flabel, {"a": a, "b": b},
                            lambda: getattr(f, meth)(a, b) if meth == "outer" else getattr(f, meth)(a))
        R.sample({"functions": names, "operands": flabel, "patterns": [p for p, _ in patterns()]})
    elif case["k"] == "extra":
        for label, g in extra_calls():
            a, b = maker()
            if not isinstance(a, numpoly.ndpoly):
                continue
            observe(R, label, flabel, {"a": a, "b": b}, lambda: g(a, b))
            a, b = maker()
            if isinstance(b, numpoly.ndpoly):
                observe(R, label + " [swapped]", flabel, {"a": a, "b": b}, lambda: g(b, a))
        # function form of evaluation: the tuple and the dict handed over are arguments too
        a, b = maker()
        if isinstance(a, numpoly.ndpoly) and len(a.names) >= 2:
            for args, kw in (((1,), {a.names[1]: 2}), ((), {a.names[0]: 3}), ((1, 2), {}), ((None, 2), {})):
                args_l, kw_d = tuple(args), dict(kw)
                observe(R, f"numpoly.call(a, {args}, {kw})", flabel, {"a": a, "args": args_l, "kwargs": kw_d}, lambda: numpoly.call(a, args_l, kw_d))
                observe(R, f"numpoly.call(a, {args}, {kw}) again with the same dict", flabel, {"a": a, "args": args_l, "kwargs": kw_d}, lambda: numpoly.call(a, args_l, kw_d))
    elif case["k"] == "keywords":
        for label, g in keyword_calls()[case["i0"]:case["i1"]]:
            a, b = maker()
            if not isinstance(a, numpoly.ndpoly):
                continue
            observe(R, label, flabel, {"a": a, "b": b}, lambda: g(a, b))
    elif case["k"] == "printing":
        # display under every print-option environment: the text may change, the polynomial may not
        for env in PRINT_ENVS:
            for label, g in (("str", str), ("repr", repr), ("array_str", numpoly.array_str), ("array_repr", numpoly.array_repr),
                             ("numpy.array_str", numpy.array_str), ("numpy.array_repr", numpy.array_repr), ("format", lambda x: format(x, "")),
                             ("array2string", lambda x: numpoly.array2string(x) if hasattr(numpoly, "array2string") else numpy.array2string(x))):
                a, b = maker()
                for nm_, obj in (("a", a), ("b", b)):
                    if not isinstance(obj, numpoly.ndpoly):
                        continue
                    def shown(obj=obj):
                        with numpy.printoptions(**env):
                            return g(obj)
                    observe(R, f"{label}({nm_}) under printoptions{env}", flabel, {"a": a, "b": b}, shown)
    elif case["k"] == "targets":
        # explicit output targets: only the target may change
        for name in ("add", "subtract", "multiply", "negative", "absolute", "floor", "rint", "square", "positive"):
            f = getattr(numpy, name)
            a, b = maker()
            if not (isinstance(a, numpoly.ndpoly) and isinstance(b, numpoly.ndpoly)):
                continue
            try:
                out = numpoly.polynomial(f(a, b) if f.nin == 2 else f(a))
            except Exception:  # noqa: BLE001
                continue
            if f.nin == 2:
                observe(R, f"{name} out=", flabel, {"a": a, "b": b, "out": out}, lambda: f(a, b, out=out), exempt=("out",))
                observe(R, f"numpoly.{name} out=", flabel, {"a": a, "b": b, "out": out},
                        lambda: getattr(numpoly, name)(a, b, out=out), exempt=("out",))
            else:
                observe(R, f"{name} out=", flabel, {"a": a, "b": b, "out": out}, lambda: f(a, out=out), exempt=("out",))
        a, b = maker()
        if isinstance(a, numpoly.ndpoly) and isinstance(b, numpoly.ndpoly):
            dst = numpoly.polynomial(a + b)
            observe(R, "copyto(dst, a)", flabel, {"a": a, "b": b, "dst": dst}, lambda: numpoly.copyto(dst, a), exempt=("dst",))
            observe(R, "numpy.copyto(dst, b)", flabel, {"a": a, "b": b, "dst": dst}, lambda: numpy.copyto(dst, b), exempt=("dst",))
            observe(R, "copyto(dst, a, where)", flabel, {"a": a, "b": b, "dst": dst},
                    lambda: numpoly.copyto(dst, a, where=numpy.arange(numpy.shape(a)[-1] if numpy.ndim(a) else 1) % 2 == 0), exempt=("dst",))
    else:
        raise KeyError(case["k"])
