"""C14  Global options are scoped, restored on every exit path, and updated atomically.

Two bindings of the same state machine, both decided by exhaustive enumeration:
 (1) stateless exhaustive search: EVERY history over the event alphabet up to depth D (nesting <= 3)
     is executed on the real numpoly.option API with real nested `with` statements, and the
     observable option state is compared with a reference model (a Python list used as a stack)
     after every event;
 (2) the TLA+ model models/Options.tla is explored completely by TLC; every edge of the dumped state
     graph is replayed against the implementation (source state reached by its BFS-tree path).
"""
import itertools
import json
import os
import re
import shutil
import subprocess
import tempfile
import collections

from .. import tree
import numpoly

ID = "C14"
OPTIONS_MAY_LEAK = True
CASE_BUDGET_S = 300

ENTER = {"E1": {}, "E2": {"retain_names": False}, "E3": {"sort_graded": False, "display_exponent": "^"},
         "ED": {"retain_names": False}}
# "ED": the manager object is created first, then PRE["ED"] is set through set_options, then the block is entered
PRE = {"ED": {"retain_coefficients": True}}
SET = {"S1": {"retain_coefficients": True},
       "S2": {"retain_names": True, "sort_graded": True, "display_exponent": "**"}}
BAD_ENTER = {"retain_coefficients": True, "sort_reverse": True, "no_such_option": 1}
BAD_SET = {"display_inverse": False, "retain_names": False, "also_not_an_option": 0}
# unknown names of every flavour: unlike any option, near misses of one or of several options, other case, blanks
BAD_NAMES = ["no_such_option", "display_grade", "display_revers", "Display_graded", "sort_reversed", "sort_grade", "retain_name",
             "varname", "graded", "sort graded", "retain_names_", "_retain_names", "displayexponent"]
EVENTS = ["E1", "E2", "E3", "EB", "XO", "XE", "XE2", "XB", "S1", "S2", "SB", "MU", "ED", "DC"]
MAXNEST = 3
DEPTH = {"quick": 6, "thorough": 7}   # 14 events: depth 7 is 10x the quick search (depth 8 would need hours)

META = {
    "rule": "every history over the 14-event alphabet (3 enters, an enter whose manager was created before a set_options call, two calls of a function decorated with global_options, bad enter (13 unknown names x 3 positions), normal exit, exit by exception through "
            "1 or 2 blocks, exit by a BaseException that is not an Exception, 2 set_options, bad set_options, mutate returned dicts) up to the depth bound with "
            "nesting<=3, executed on the real API; plus every edge of TLC's complete state graph of "
            "models/Options.tla replayed on the real API. A state is distinct by (options in force, stack of "
            "snapshots); non-trivial = at least one open block or one modified option",
    "bounds": lambda tier: {"history_depth": DEPTH[tier], "max_nesting": MAXNEST, "alphabet": EVENTS,
                            "tla_MaxDepth": 3},
    "assumptions": ["the option machine has no state beyond the module-level dict and the generator frames",
                    "shipped defaults = get_options(defaults=True) at import of the tree under test"],
}


class Boom(Exception):
    pass


class BoomBase(BaseException):
    """an exception that is not an Exception (like KeyboardInterrupt / SystemExit / GeneratorExit)"""


class Unwind(BaseException):
    pass


def enabled(ev, depth):
    if ev in ("E1", "E2", "E3", "EB", "ED"):
        return depth < MAXNEST
    if ev in ("XO", "XE", "XB"):
        return depth >= 1
    if ev == "XE2":
        return depth >= 2
    return True


def model_step(cur, stack, ev):
    """reference model: cur = dict, stack = list of dicts"""
    if ev in ENTER:
        cur = dict(cur, **PRE.get(ev, {}))
        stack = stack + [dict(cur)]
        cur = dict(cur, **ENTER[ev])
    elif ev == "DC":
        cur = dict(cur, **SET["S1"])
    elif ev in ("XO", "XE", "XB"):
        cur, stack = dict(stack[-1]), stack[:-1]
    elif ev == "XE2":
        cur, stack = dict(stack[-2]), stack[:-2]
    elif ev in SET:
        cur = dict(cur, **SET[ev])
    return cur, stack


class Interp:
    """Executes a history with real nested `with` blocks and checks the model after every event."""

    def __init__(self, hist, R, check_from=0):
        self.hist = hist
        self.R = R
        self.pos = 0
        self.cur = dict(tree.DEFAULTS)
        self.stack = []
        self.failed = False
        self.check_from = check_from

    def complain(self, what):
        if not self.failed:
            self.failed = True
            tags = ["ev=" + self.hist[self.pos - 1] if self.pos else "init"]
            self.R.fail("option-history", "wrong-state", f"after {self.hist[:self.pos]}: {what}",
                        tags=tags, sub={"k": "hist1", "h": list(self.hist[:self.pos])})

    def observe(self, yielded=None):
        if self.pos < self.check_from:
            return
        self.R.tr()
        self.R.outcome((abstract_full(self.cur, self.stack), self.hist[self.pos - 1] if self.pos else "init"))
        got = numpoly.get_options()
        if got != self.cur:
            diff = {k: (got.get(k), self.cur.get(k)) for k in set(got) | set(self.cur) if got.get(k) != self.cur.get(k)}
            self.complain(f"get_options() differs from model (got, expected): {diff}")
        if numpoly.get_options(defaults=True) != tree.DEFAULTS:
            self.complain(f"get_options(defaults=True) changed: {numpoly.get_options(defaults=True)}")
        if yielded is not None and yielded != self.cur:
            self.complain(f"dict yielded by the context manager differs from options in force: {yielded}")

    def simple(self, ev, yielded):
        """events that do not open or close blocks"""
        if ev in SET:
            numpoly.set_options(**SET[ev])
        elif ev == "SB":
            for bad in BAD_NAMES:
                for kw in ({bad: 0}, {"display_inverse": False, bad: 0}, {bad: 0, "retain_names": False}):
                    try:
                        numpoly.set_options(**kw)
                    except KeyError:
                        pass
                    except Exception as err:  # noqa: BLE001
                        self.complain(f"set_options({kw}) raised {type(err).__name__}, not KeyError")
                    else:
                        self.complain(f"set_options({kw}) did not raise")
                    if numpoly.get_options() != self.cur:
                        self.complain(f"set_options({kw}) was rejected but changed the options")
            try:
                numpoly.set_options(**BAD_SET)
            except KeyError:
                pass
            except Exception as err:  # noqa: BLE001
                self.complain(f"set_options with unknown name raised {type(err).__name__}, not KeyError")
            else:
                self.complain("set_options with unknown name did not raise")
        elif ev == "DC":
            before = numpoly.get_options()

            @numpoly.global_options(**ENTER["E3"])
            def decorated():
                return numpoly.get_options()
            numpoly.set_options(**SET["S1"])
            want_inside = dict(self.cur, **ENTER["E3"])      # self.cur already holds SET["S1"]
            for nth in (1, 2):
                try:
                    inside = decorated()
                except Exception as err:  # noqa: BLE001
                    self.complain(f"call {nth} of a function decorated with global_options raised {type(err).__name__}: {err}")
                    break
                if inside != want_inside:
                    diff = {k: (inside.get(k), want_inside.get(k)) for k in set(inside) | set(want_inside) if inside.get(k) != want_inside.get(k)}
                    self.complain(f"inside call {nth} of a function decorated with global_options (got, expected): {diff}")
                if numpoly.get_options() != self.cur:
                    self.complain(f"after call {nth} of a function decorated with global_options the options are {numpoly.get_options()}")
            del before
        elif ev == "EB":
            for bad in BAD_NAMES:
                for kw in ({bad: 1}, {"sort_reverse": True, bad: 1}, {bad: 1, "retain_coefficients": True}):
                    try:
                        with numpoly.global_options(**kw):
                            self.complain(f"global_options({kw}) opened a block")
                    except KeyError:
                        pass
                    except Exception as err:  # noqa: BLE001
                        self.complain(f"global_options({kw}) raised {type(err).__name__}, not KeyError")
                    if numpoly.get_options() != self.cur:
                        self.complain(f"global_options({kw}) was rejected but changed the options")
            opened = False
            try:
                with numpoly.global_options(**BAD_ENTER):
                    opened = True
            except KeyError:
                pass
            except Exception as err:  # noqa: BLE001
                self.complain(f"global_options with unknown name raised {type(err).__name__}, not KeyError")
            else:
                self.complain("global_options with unknown name did not raise")
            if opened:
                self.complain("global_options with unknown name opened a block")
        elif ev == "MU":
            d = numpoly.get_options()
            d["retain_names"] = not d.get("retain_names")
            d["junk"] = 1
            d.pop("sort_graded", None)
            d2 = numpoly.get_options(defaults=True)
            d2["retain_coefficients"] = "mutated"
            d2["junk"] = 2
            if yielded is not None:
                yielded["display_exponent"] = "mutated"
                yielded["junk"] = 3

    def block(self, yielded):
        """runs events inside the current block (or top level); returns number of further levels to
        leave by exception (0 = this level ended normally)"""
        while self.pos < len(self.hist):
            ev = self.hist[self.pos]
            self.pos += 1
            if ev in ENTER:
                self.cur, self.stack = model_step(self.cur, self.stack, ev)
                pending = 0
                try:
                    manager = numpoly.global_options(**ENTER[ev])
                    if ev in PRE:
                        numpoly.set_options(**PRE[ev])      # between creating the manager and entering the block
                    with manager as inner:
                        self.observe(dict(inner))
                        pending = self.block(inner)
                        if pending == "base":
                            pending = 0
                            raise BoomBase()
                        if pending:
                            raise Boom(pending)
                except BoomBase:
                    pass    # left exactly this block by a BaseException
                except Boom as boom:
                    pending = boom.args[0] - 1
                    if pending:
                        raise Boom(pending) from None
                    # the event that closed the block(s) has updated the model already
                self.observe(None if yielded is None else None)
            elif ev == "XO":
                self.cur, self.stack = model_step(self.cur, self.stack, ev)
                return 0
            elif ev == "XE":
                self.cur, self.stack = model_step(self.cur, self.stack, ev)
                return 1
            elif ev == "XB":
                self.cur, self.stack = model_step(self.cur, self.stack, ev)
                return "base"
            elif ev == "XE2":
                self.cur, self.stack = model_step(self.cur, self.stack, ev)
                return 2
            else:
                self.cur, self.stack = model_step(self.cur, self.stack, ev)
                self.simple(ev, yielded)
                self.observe()
        raise Unwind()

    def run(self):
        hard_reset()
        self.observe()
        try:
            self.block(None)
        except Unwind:
            pass
        except Boom:
            # XE2 leaving exactly to top level is handled by the nested except clauses; reaching here is a harness bug
            raise RuntimeError("unbalanced Boom")
        finally:
            hard_reset()
        return not self.failed


def hard_reset():
    opts = getattr(numpoly.option, "_NUMPOLY_OPTIONS", None)
    if isinstance(opts, dict):
        opts.clear()
        opts.update(tree.DEFAULTS)
    else:
        numpoly.set_options(**tree.DEFAULTS)


def depth_after(hist):
    d = 0
    for ev in hist:
        if not enabled(ev, d):
            return None
        if ev in ENTER:
            d += 1
        elif ev in ("XO", "XE", "XB"):
            d -= 1
        elif ev == "XE2":
            d -= 2
    return d


def extensions(prefix, maxdepth):
    """all valid histories extending prefix up to maxdepth (prefix itself included)"""
    d0 = depth_after(prefix)
    if d0 is None:
        return
    stack = [(list(prefix), d0)]
    while stack:
        h, d = stack.pop()
        yield h
        if len(h) >= maxdepth:
            continue
        for ev in EVENTS:
            if enabled(ev, d):
                nd = d + (1 if ev in ENTER else -1 if ev in ("XO", "XE", "XB") else -2 if ev == "XE2" else 0)
                stack.append((h + [ev], nd))


# ---- TLC binding ---------------------------------------------------------------------------
LABEL2EV = {"EnterDeferred": "ED", "DecoratedCalls": "DC", "Enter(1)": "E1", "Enter(2)": "E2", "Enter(3)": "E3", "EnterBad": "EB", "ExitOk": "XO",
            "ExitExc": "XE", "ExitExc2": "XE2", "ExitBase": "XB", "Set(1)": "S1", "Set(2)": "S2", "SetBad": "SB", "Mutate": "MU"}


def tla_state(text):
    s = re.search(r"stack = (.*?)(?:\\n|$)", text).group(1)
    c = re.search(r"cur = (.*?)(?:\\n|$)", text).group(1)
    assert re.fullmatch(r"[<>0-9, ]*", s) and re.fullmatch(r"[<>0-9, ]*", c), (s, c)

    def py(x):
        return json.loads(x.replace("<<", "[").replace(">>", "]"))
    return tuple(py(c)), tuple(tuple(x) for x in py(s))


def abstract(cur, stack):
    def ab(d):
        return (int(bool(d["retain_names"])), int(bool(d["sort_graded"]) and d["display_exponent"] == "**"),
                int(bool(d["retain_coefficients"])))
    return ab(cur), tuple(ab(s) for s in stack)


def run_tlc():
    """-> (nodes: id -> state, edges: list of (src, label, dst), stdout tail)"""
    here = os.path.join(os.path.dirname(os.path.dirname(os.path.dirname(os.path.abspath(__file__)))), "models")
    scratch = tempfile.mkdtemp(prefix="numpoly-verif-tlc-", dir=os.environ.get("TMPDIR", "/var/tmp"))
    try:
        for f in ("Options.tla", "Options.cfg"):
            shutil.copy(os.path.join(here, f), scratch)
        cmd = ["tlc", "-workers", "1", "-noGenerateSpecTE", "-metadir", os.path.join(scratch, "meta"),
               "-deadlock", "-dump", "dot,actionlabels", os.path.join(scratch, "graph"), "Options.tla"]
        # TLC leaves an (empty) tlc-<n> directory in java.io.tmpdir on every run: keep it inside the scratch directory
        env = dict(os.environ, JAVA_TOOL_OPTIONS=(os.environ.get("JAVA_TOOL_OPTIONS", "") + " -Djava.io.tmpdir=" + scratch).strip())
        out = subprocess.run(cmd, cwd=scratch, capture_output=True, text=True, timeout=600, env=env)
        if "Model checking completed. No error has been found." not in out.stdout:
            raise RuntimeError("TLC did not complete cleanly:\n" + out.stdout[-2000:] + out.stderr[-500:])
        summary = re.search(r"(\d+) states generated, (\d+) distinct states found", out.stdout)
        nodes, edges = {}, []
        with open(os.path.join(scratch, "graph.dot")) as f:
            for line in f:
                m = re.match(r'(-?\d+) -> (-?\d+) \[label="([^"]*)"', line)
                if m:
                    edges.append((m.group(1), m.group(3), m.group(2)))
                    continue
                m = re.match(r'(-?\d+) \[label="([^"]*)"', line)
                if m:
                    nodes[m.group(1)] = tla_state(m.group(2))
        return nodes, edges, (int(summary.group(1)), int(summary.group(2)))
    finally:
        shutil.rmtree(scratch, ignore_errors=True)


_TLC = {}


def cases(tier, seed):
    out = []
    D = DEPTH[tier]
    # (1) stateless exhaustive histories, partitioned by their first two events
    for p in itertools.product(EVENTS, repeat=2):
        if depth_after(p) is not None:
            out.append({"k": "hist", "prefix": list(p), "depth": D})
    for ev in EVENTS:  # histories of length 0 and 1
        if enabled(ev, 0):
            out.append({"k": "hist1", "h": [ev]})
    out.append({"k": "hist1", "h": []})
    # (2) TLC state graph, every edge
    nodes, edges, (gen, distinct) = run_tlc()
    init = [n for n, s in nodes.items() if s == ((1, 1, 0), ())]
    assert len(init) == 1 and len(nodes) == distinct, (len(nodes), distinct)
    succ = collections.defaultdict(list)
    for s, lab, d in edges:
        succ[s].append((lab, d))
    path = {init[0]: []}
    queue = collections.deque(init)
    while queue:
        s = queue.popleft()
        for lab, d in succ[s]:
            if d not in path:
                path[d] = path[s] + [LABEL2EV[lab]]
                queue.append(d)
    assert set(path) == set(nodes), "TLC graph not connected from Init"
    _TLC.update(states=len(nodes), edges=len(edges), generated=gen)
    chunk = []
    for s, lab, d in edges:
        chunk.append({"h": path[s], "ev": LABEL2EV[lab], "src": nodes[s], "dst": nodes[d]})
        if len(chunk) == 40:
            out.append({"k": "tlc", "edges": chunk})
            chunk = []
    if chunk:
        out.append({"k": "tlc", "edges": chunk})
    return out


def run_case(case, R):
    if case["k"] == "hist":
        for h in extensions(case["prefix"], case["depth"]):
            if len(h) < 2:
                continue
            it = Interp(h, R, check_from=len(h) - 1 if len(h) > 2 else 0)
            it.run()
            R.state(abstract_full(it.cur, it.stack))
            R.stat("histories")
            if len(h) == case["depth"]:
                R.sample({"history": h})
    elif case["k"] == "hist1":
        it = Interp(case["h"], R)
        it.run()
        R.state(abstract_full(it.cur, it.stack))
        R.stat("histories")
    elif case["k"] == "tlc":
        for e in case["edges"]:
            h = e["h"] + [e["ev"]]
            it = Interp(h, R, check_from=len(h) - 1)
            # the model state of the interpreter before the last event must be TLC's source state ...
            pre = Interp(e["h"], R, check_from=len(e["h"]) + 1)
            pre.run()
            if abstract(pre.cur, pre.stack) != (tuple(e["src"][0]), tuple(tuple(x) for x in e["src"][1])):
                raise RuntimeError(f"TLC path {e['h']} does not lead to TLC state {e['src']} in the Python model")
            ok = it.run()
            # ... and after it TLC's target state (Python model == TLA model), while Interp compared
            # the Python model with the implementation
            if abstract(it.cur, it.stack) != (tuple(e["dst"][0]), tuple(tuple(x) for x in e["dst"][1])):
                R.fail("tlc-edge", "model-mismatch", f"edge {e} : python model reaches {abstract(it.cur, it.stack)}",
                       tags=["harness-models-disagree"])
            R.stat("tlc_edges_replayed")
            R.state(("tlc",) + abstract(it.cur, it.stack))
            R.sample({"tlc_edge": e})


def abstract_full(cur, stack):
    def fz(d):
        return tuple(sorted((k, str(v)) for k, v in d.items() if tree.DEFAULTS.get(k) != v))
    return (fz(cur), tuple(fz(s) for s in stack))


def post(agg, tier, seed, cov):
    cov["tlc"] = dict(_TLC)
    cov["traces_validated_against_impl"] = agg["stats"].get("tlc_edges_replayed", 0) + agg["stats"].get("histories", 0)
    cov["histories_executed"] = agg["stats"].get("histories", 0)
    fails = []
    if agg["stats"].get("tlc_edges_replayed", 0) != _TLC.get("edges"):
        fails.append({"op": "tlc", "kind": "harness-error", "detail": "not every TLC edge was replayed",
                      "tags": ["harness"], "case": {}})
    return fails
