"""C05  Polynomial division terminates and satisfies dividend = q*divisor + r (E1 + loop-state monitor)."""
import itertools
import math
import signal
from fractions import Fraction

import numpy

from .. import tree  # noqa: F401
import numpoly

from ..alpha import alpha, build_checked, model_of, spec, spec_of_model, wellformed
from ..model import V, exact_array, ONE, mono_key
from .. import space

ID = "C05"
CASE_BUDGET_S = 900
CALL_BUDGET_S = 20

META = {
    "rule": "all ordered dividend/divisor pairs of: a one-indeterminate universe (<=2 terms, degree<=3, coefficients 1,-1,2: 67), "
            "a two-indeterminate universe (<=2 terms, degree<=2, coefficients 1,-2: 73, containing every divisor with two "
            "incomparable top terms), a three-indeterminate pool; exact multiples c*d for all (c,d) of the first and a band of "
            "the second; constants and zero as divisor and dividend; arrays whose elements have different leading terms or are "
            "zero, broadcasting shapes; int and float coefficients; operator spellings / % divmod and reflected forms. Pairs "
            "are evaluated PACKED (block[:,None] vs universe[None,:]) and a band of them again by 0-d calls. The running "
            "dividend is observed at every loop iteration (wrapper around the candidate selection): a repeated state proves "
            "non-termination; a watchdog bounds every call. distinct = ordered pair (dividend, divisor).",
    "bounds": {"U1": 67, "U2": 73, "call_budget_s": CALL_BUDGET_S},
    "assumptions": ["identity checked in exact rational arithmetic on the returned float coefficients with tolerance 1e-9*scale",
                    "the loop monitor wraps numpoly.poly_function.divide.divmod.get_division_candidate; if that helper is "
                    "refactored away the watchdog alone decides termination (hook_activations reported)"],
}


class NonTermination(Exception):
    pass


_MON = {"active": False, "seen": None, "iters": 0, "activations": 0}


def install_monitor():
    try:
        from numpoly.poly_function.divide import divmod as dm
    except Exception:  # noqa: BLE001
        return False
    if getattr(dm, "_verif_wrapped", False):
        return True
    orig = getattr(dm, "get_division_candidate", None)
    if orig is None:
        return False

    def wrapper(x1, x2, *a, **k):
        if _MON["active"]:
            _MON["activations"] += 1
            _MON["iters"] += 1
            raw = numpy.ndarray.view(x1, numpy.ndarray)
            digest = (tuple(x1.names), tuple(str(kk) for kk in x1.keys), raw.tobytes())
            if digest in _MON["seen"]:
                raise NonTermination(f"the running dividend repeats after {_MON['iters']} iterations "
                                     f"(state first seen at iteration {_MON['seen'][digest]})")
            _MON["seen"][digest] = _MON["iters"]
        return orig(x1, x2, *a, **k)
    dm.get_division_candidate = wrapper
    dm._verif_wrapped = True
    return True


def monitored(f):
    """run f() under the loop monitor and a per-call watchdog -> ('ok', value) | ('hang'|'cycle'|'exc', info)"""
    from ..run import Hang
    install_monitor()
    _MON.update(active=True, seen={}, iters=0)
    remaining = signal.setitimer(signal.ITIMER_REAL, CALL_BUDGET_S, 2.0)[0]
    try:
        return ("ok", f())
    except NonTermination as err:
        return ("cycle", str(err))
    except Hang:
        return ("hang", f"no result after {CALL_BUDGET_S}s ({_MON['iters']} loop iterations observed)")
    except Exception as err:  # noqa: BLE001
        return ("exc", f"{type(err).__name__}: {err}")
    finally:
        _MON["active"] = False
        signal.setitimer(signal.ITIMER_REAL, max(1.0, remaining - CALL_BUDGET_S) if remaining else 0, 2.0)


# ---- universes ------------------------------------------------------------------------------
def U1():
    return space.universe(("q0",), 3, 2, [1, -1, 2])


def U2():
    return space.universe(("q0", "q1"), 2, 2, [1, -2])


def U3():
    names = ("q0", "q1", "q2")
    pool = [[((0, 0, 0), 2)], [((1, 0, 0), 1)], [((0, 0, 1), 1)], [((0, 1, 0), 1), ((0, 0, 0), -1)],
            [((1, 1, 0), 1)], [((0, 0, 2), 1), ((1, 0, 0), -2)], [((1, 0, 1), 1), ((0, 1, 0), 1)], [((2, 0, 0), 1), ((0, 0, 1), 1)],
            [((1, 1, 1), 2)], [((0, 2, 0), 1), ((0, 0, 0), 1)], [], [((0, 0, 1), 1), ((0, 1, 0), 1)]]
    return names, pool


def incomparable_top(terms):
    """input feature: the divisor has >= 2 non-zero terms that are maximal under divisibility"""
    exps = [e for e, c in terms if c != 0]
    maximal = [e for e in exps if not any(f != e and all(x <= y for x, y in zip(e, f)) for f in exps)]
    return len(maximal) >= 2


def divisor_tags(v_divisor):
    tags = set()
    els = v_divisor.elements().ravel().tolist()
    names = v_divisor.names() or ["q0"]
    inc = False
    for el in els:
        terms = [(tuple(dict(m).get(n, 0) for n in names), c) for m, c in dict(el).items()]
        if incomparable_top(terms):
            inc = True
    tags.add("divisor_incomparable_top_terms" if inc else "divisor_single_top_term")
    tags.add(f"divisor_names={len(names)}")
    if any(not dict(el) for el in els):
        tags.add("zero_divisor_element")
    return tags


# ---- oracle -----------------------------------------------------------------------------------
def residual_small(dividend, divisor, q, r):
    res = dividend - (q * divisor + r)
    scale = 1.0
    for v in (dividend, divisor, q, r):
        for c in v.t.values():
            for x in c.ravel().tolist():
                scale = max(scale, abs(complex(x)))
    if not math.isfinite(scale):
        # all operands of the universe are finite: an infinite or NaN coefficient in q or r cannot satisfy the identity
        # (inf*0 is NaN, and NaN compares false with everything - it must not pass for "small"; seeded/C05-U)
        return False, res
    for c in res.t.values():
        for x in c.ravel().tolist():
            if not abs(complex(x)) <= 1e-9 * scale:
                return False, res
    return True, res


def degree1(el, name):
    return max((dict(m).get(name, 0) for m in dict(el)), default=-1) if dict(el) else -1


def judge_divmod(R, label, pa, pb, ma, mb, tags, sub, cofactor=None, out=None):
    """pa, pb implementation operands; ma, mb their models. Checks poly_divmod(pa, pb)."""
    R.tr()
    tags = sorted(set(tags) | divisor_tags(mb))
    res = monitored(lambda: numpoly.poly_divmod(pa, pb))
    if res[0] == "cycle":
        R.fail("poly_divmod", "nontermination", f"{label}: {res[1]}", tags=tags, sub=sub)
        return None
    if res[0] == "hang":
        R.fail("poly_divmod", "hang", f"{label}: {res[1]}", tags=tags, sub=sub)
        return None
    if res[0] == "exc":
        R.fail("poly_divmod", "exception", f"{label}: {res[1]}", tags=tags, sub=sub)
        return None
    q, r = res[1]
    bshape = numpy.broadcast_shapes(ma.shape, mb.shape)
    probs = []
    for nm, x in (("q", q), ("r", r)):
        if not isinstance(x, numpoly.ndpoly):
            probs.append(f"{nm} is {type(x).__name__}")
        elif tuple(x.shape) != bshape:
            probs.append(f"{nm}.shape {tuple(x.shape)} != {bshape}")
        elif wellformed(x):
            probs.append(f"{nm} ill-formed {wellformed(x)}")
    if probs:
        R.fail("poly_divmod", "wrong-value", f"{label}: " + "; ".join(probs), tags=tags, sub=sub)
        return None
    mq, mr = alpha(q), alpha(r)
    A = ma.map(lambda c: numpy.broadcast_to(c, bshape))
    B = mb.map(lambda c: numpy.broadcast_to(c, bshape))
    ok, resid = residual_small(A, B, mq, mr)
    if not ok:
        probs.append(f"dividend != q*divisor + r: residual {resid!r} (q={mq!r}, r={mr!r})")
    ea, eb, eq, er = A.elements(), B.elements(), mq.elements(), mr.elements()
    names = sorted(set(A.names()) | set(B.names()))
    for idx in numpy.ndindex(*bshape):
        d = dict(eb[idx])
        if d and set(d) == {ONE}:
            c = d[ONE]
            if dict(er[idx]):
                probs.append(f"element {idx}: constant divisor {c} but remainder {dict(er[idx])}")
                break
            want = {m: Fraction(x) / Fraction(c) for m, x in dict(ea[idx]).items()} if not isinstance(c, complex) else None
            if want is not None and not close_el(dict(eq[idx]), want):
                probs.append(f"element {idx}: constant divisor {c}: quotient {dict(eq[idx])} != dividend/c {want}")
                break
        if d and len(names) == 1:
            if degree1(er[idx], names[0]) >= degree1(eb[idx], names[0]) and degree1(eb[idx], names[0]) >= 0 and dict(er[idx]):
                if degree1(eb[idx], names[0]) > 0 or dict(er[idx]):
                    if degree1(er[idx], names[0]) >= max(degree1(eb[idx], names[0]), 0) and not (degree1(eb[idx], names[0]) == 0):
                        probs.append(f"element {idx}: deg r = {degree1(er[idx], names[0])} >= deg divisor = {degree1(eb[idx], names[0])}")
                        break
    if cofactor is None and not probs and int(numpy.prod(bshape)) > 1:
        # arrays whose elements are a mix of exact multiples and other dividends: an independent exact division (sympy, over
        # the rationals) says which elements are multiples; for those the remainder must vanish and q must be the cofactor
        for idx in numpy.ndindex(*bshape):
            da_, db_ = dict(ea[idx]), dict(eb[idx])
            if not db_ or set(db_) == {ONE} or not da_:
                continue
            cof = exact_cofactor(da_, db_, names)
            if cof is None:
                continue
            if dict(er[idx]) and not close_el(dict(er[idx]), {}):
                probs.append(f"element {idx}: {da_} is an exact multiple of {db_} but the remainder is {dict(er[idx])}")
                break
            if not close_el(dict(eq[idx]), cof):
                probs.append(f"element {idx}: exact multiple: quotient {dict(eq[idx])} != cofactor {cof}")
                break
    if cofactor is not None and not probs:
        C = cofactor.map(lambda c: numpy.broadcast_to(c, bshape))
        ec = C.elements()
        for idx in numpy.ndindex(*bshape):
            if not dict(eb[idx]):
                continue
            if dict(er[idx]) and not close_el(dict(er[idx]), {}):
                probs.append(f"element {idx}: exact multiple but remainder {dict(er[idx])}")
                break
            if not close_el(dict(eq[idx]), dict(ec[idx])):
                probs.append(f"element {idx}: exact multiple: quotient {dict(eq[idx])} != cofactor {dict(ec[idx])}")
                break
    if probs:
        R.fail("poly_divmod", "wrong-value", f"{label}: " + "; ".join(probs)[:500], tags=tags, sub=sub)
        return None
    R.outcome((mq.key(), mr.key()))
    return q, r


def exact_cofactor(a, b, names):
    """element dicts (monomial -> coefficient) -> cofactor dict if b divides a exactly over the rationals, else None"""
    import sympy
    if any(isinstance(c, complex) for c in list(a.values()) + list(b.values())):
        return None
    syms = {n: sympy.Symbol(n) for n in names}

    def expr(d):
        return sympy.Add(*[sympy.Rational(Fraction(c).numerator, Fraction(c).denominator) * sympy.Mul(*[syms[n] ** e for n, e in m]) for m, c in d.items()])
    gens = [syms[n] for n in names]
    q_, r_ = sympy.div(sympy.Poly(expr(a), *gens, domain="QQ"), sympy.Poly(expr(b), *gens, domain="QQ"))
    if not r_.is_zero:
        return None
    out = {}
    for mon, c in q_.terms():
        out[frozenset((n, int(e)) for n, e in zip(names, mon) if e)] = Fraction(int(c.p), int(c.q))
    return out


def close_el(a, b):
    for m in set(a) | set(b):
        x, y = complex(a.get(m, 0)), complex(b.get(m, 0))
        if not abs(x - y) <= 1e-9 * max(1.0, abs(x), abs(y)):  # NaN must not pass for close
            return False
    return True


def same_poly(x, y):
    return (isinstance(x, numpoly.ndpoly) and isinstance(y, numpoly.ndpoly) and tuple(x.shape) == tuple(y.shape)
            and x.dtype == y.dtype and tuple(x.names) == tuple(y.names) and alpha(x) == alpha(y))


def judge_spellings(R, label, pa, pb, tags, sub):
    """/, %, divmod and the poly_* functions return exactly the same things"""
    refs = [monitored(lambda: numpoly.poly_divide(pa, pb)), monitored(lambda: numpoly.poly_remainder(pa, pb)),
            monitored(lambda: numpoly.poly_divmod(pa, pb))]   # one monitored call each: the loop monitor is per division
    if any(r[0] != "ok" for r in refs):
        R.stat("spelling_reference_failed")
        return
    pd, pr, (dq, dr) = refs[0][1], refs[1][1], refs[2][1]
    if not isinstance(pa, numpoly.ndpoly) and not isinstance(pb, numpoly.ndpoly):
        return
    tags = list(tags) + ["left=" + ("ndpoly" if isinstance(pa, numpoly.ndpoly) else "numpy_scalar" if isinstance(pa, numpy.generic)
                                    else "ndarray" if isinstance(pa, numpy.ndarray) else "python")]
    for nm, f, want in (("/", lambda: pa / pb, [pd]), ("%", lambda: pa % pb, [pr]), ("divmod", lambda: divmod(pa, pb), [dq, dr]),
                        ("poly_divide vs divmod[0]", lambda: numpoly.poly_divide(pa, pb), [dq]),
                        ("poly_remainder vs divmod[1]", lambda: numpoly.poly_remainder(pa, pb), [dr])):
        R.tr()
        got = monitored(f)
        if got[0] != "ok":
            R.fail("operator " + nm, "exception", f"{label}: {got[1]} (the poly_* function returned)", tags=tags, sub=sub)
            continue
        g = list(got[1]) if isinstance(got[1], tuple) else [got[1]]
        if len(g) != len(want) or not all(same_poly(x, y) for x, y in zip(g, want)):
            R.fail("operator " + nm, "spelling-mismatch", f"{label}: {nm} returned {[str(x) for x in g]}, poly function returned "
                   f"{[str(x) for x in want]}", tags=tags, sub=sub)


# ---- cases --------------------------------------------------------------------------------------
def cases(tier, seed):
    out = []
    n1, n2 = len(U1()), len(U2())
    for i0 in range(0, n1, 4):
        out.append({"k": "packed", "u": "U1", "i0": i0, "i1": min(n1, i0 + 4)})
        out.append({"k": "multiples", "u": "U1", "i0": i0, "i1": min(n1, i0 + 4)})
    for i0 in range(0, n2, 4):
        out.append({"k": "packed", "u": "U2", "i0": i0, "i1": min(n2, i0 + 4)})
        out.append({"k": "multiples", "u": "U2", "i0": i0, "i1": min(n2, i0 + 4)})
    # the same universes over indeterminates that do not include q0 / are not adjacent (constants default to q0)
    for i0 in range(0, n2, 4):
        out.append({"k": "packed", "u": "U2n", "i0": i0, "i1": min(n2, i0 + 4)})
        out.append({"k": "multiples", "u": "U2m", "i0": i0, "i1": min(n2, i0 + 4)})
    out.append({"k": "U3", "names": ["q1", "q3", "q4"]})
    for i in range(0, n1, 1):
        out.append({"k": "scalar", "u": "U1", "i": i, "mod": 7 if tier == "quick" else 1})
    for i in range(0, n2, 1):
        out.append({"k": "scalar", "u": "U2", "i": i, "mod": 9 if tier == "quick" else 1})
    if tier == "thorough":
        n1b, n2b = len(uni("U1b")[1]), len(uni("U2b")[1])
        for i0 in range(0, n1b, 4):
            out.append({"k": "packed", "u": "U1b", "i0": i0, "i1": min(n1b, i0 + 4)})
        for i0 in range(0, n2b, 4):
            out.append({"k": "packed", "u": "U2b", "i0": i0, "i1": min(n2b, i0 + 4)})
    out.append({"k": "U3"})
    out.append({"k": "arrays"})
    out.append({"k": "arrays", "errstate": "raise"})
    out.append({"k": "floats"})
    out.append({"k": "magnitudes"})
    out.append({"k": "spellings"})
    return out


def uni(name):
    if name == "U1":
        return ("q0",), U1()
    if name == "U1b":
        return ("q0",), space.universe(("q0",), 3, 3, [1, -1, 2])
    if name == "U2b":
        return ("q0", "q1", "q2"), space.universe(("q0", "q1", "q2"), 2, 2, [1, -2])
    if name == "U2n":
        return ("q1", "q2"), U2()
    if name == "U2m":
        return ("q2", "q10"), U2()
    return ("q0", "q1"), U2()


def run_arrays(R, nonzero_divisors=False, tag=None):
    names = ("q0",)
    pool = [[((2,), 1), ((0,), -1)], [((1,), 2)], [], [((0,), 2)], [((3,), 1), ((1,), 1)], [((1,), 1), ((0,), 1)]]
    dpool = [t for t in pool if t] if nonzero_divisors else pool
    for sa, sb in [((2,), (2,)), ((3,), (3,)), ((2, 2), (2, 2)), ((2, 1), (1, 2)), ((3,), ()), ((), (3,)), ((2, 3), (3,)), ((1,), (1,))]:
        for ra, rb in itertools.product(range(3), range(4)):
            spa = space.array_spec(names, sa, space.fill(pool, sa, ra, 1))
            spb = space.array_spec(names, sb, space.fill(dpool, sb, rb + 1, 2 if rb % 2 else 1))
            judge_divmod(R, f"arrays {sa}/{sb} rot {ra},{rb}", build_checked(spa), build_checked(spb), model_of(spa), model_of(spb),
                         ["arrays"] + ([tag] if tag else []), None)
            R.state(("arr", sa, sb, ra, rb))
    if not nonzero_divisors:
        # divisor arrays made of constants only, zero and non-zero entries mixed (a shortcut for "the divisor is a plain number
        # array" sees these as a whole; seeded/C05-U), against every dividend rotation
        for cvals in ([2, 0, 4], [0, -1, 0], [3, 0, -2], [0, 0, 3]):
            cpool = [[((0,), v)] if v else [] for v in cvals]
            for sa, sb in [((3,), (3,)), ((2, 3), (3,)), ((), (3,)), ((2, 1), (1, 3)), ((3,), (1,))]:
                for ra in range(3):
                    spa = space.array_spec(names, sa, space.fill(pool, sa, ra, 1))
                    spb = space.array_spec(names, sb, space.fill(cpool, sb, 0, 1))
                    judge_divmod(R, f"arrays {sa}/constants {cvals} in {sb} rot {ra}", build_checked(spa), build_checked(spb), model_of(spa),
                                 model_of(spb), ["arrays", "constant_divisor_array"], None)
                    R.state(("arrc", tuple(cvals), sa, sb, ra))
    names2 = ("q0", "q1")
    pool2 = [[((1, 0), 1)], [((0, 1), 2)], [((1, 1), 1), ((0, 0), 1)], [], [((0, 0), -2)], [((2, 0), 1)]]
    dpool2 = [t for t in pool2 if t] if nonzero_divisors else pool2
    for sa, sb in [((3,), (3,)), ((2, 1), (1, 3)), ((3,), ()), ((), (3,)), ((2, 3), (3,)), ((2, 2), ()), ((6,), ())]:
        for ra, rb in itertools.product(range(6 if not sb else 3), range(len(dpool2) if not sb else 3)):
            spa = space.array_spec(names2, sa, space.fill(pool2, sa, ra, 1))
            spb = space.array_spec(names2, sb, space.fill(dpool2, sb, rb, 1))
            judge_divmod(R, f"arrays2 {sa}/{sb} rot {ra},{rb}", build_checked(spa), build_checked(spb), model_of(spa), model_of(spb),
                         ["arrays"] + ([tag] if tag else []), None)


def run_case(case, R):
    k = case["k"]
    if k == "packed":
        names, u = uni(case["u"])
        spA = space.packed_spec(names, u)
        rows = u[case["i0"]:case["i1"]]
        spB = space.packed_spec(names, rows)
        A, B = build_checked(spA), build_checked(spB)
        mA, mB = model_of(spA), model_of(spB)
        judge_divmod(R, f"packed {case['u']} dividends {case['i0']}..{case['i1']} / all divisors", B[:, None], A[None, :],
                     mB.map(lambda c: c[:, None]), mA.map(lambda c: c[None, :]), ["packed", case["u"]], None)
        for i in range(case["i0"], case["i1"]):
            R.state((case["u"], "dividend", i))
        R.stat("pairs", len(rows) * len(u))
        R.sample({"universe": case["u"], "dividends": [str(t) for t in rows][:2], "divisors": len(u)})
    elif k == "scalar":
        names, u = uni(case["u"])
        i = case["i"]
        a = build_checked(space.scalar_spec(names, u[i]))
        ma = model_of(space.scalar_spec(names, u[i]))
        for j in range(len(u)):
            if (i + j) % case["mod"]:
                continue
            spb = space.scalar_spec(names, u[j])
            judge_divmod(R, f"{case['u']}[{i}] / {case['u']}[{j}] = {u[i]} / {u[j]}", a, build_checked(spb), ma, model_of(spb),
                         ["0-d", case["u"]], {"k": "pair", "u": case["u"], "i": i, "j": j})
            R.state((case["u"], i, j))
    elif k == "pair":
        names, u = uni(case["u"])
        spa, spb = space.scalar_spec(names, u[case["i"]]), space.scalar_spec(names, u[case["j"]])
        judge_divmod(R, f"{u[case['i']]} / {u[case['j']]}", build_checked(spa), build_checked(spb), model_of(spa), model_of(spb), ["0-d"], None)
    elif k == "multiples":
        names, u = uni(case["u"])
        cof = u[case["i0"]:case["i1"]]
        # dividend[i, j] = cof[i] * u[j]  (computed in the model), divided by u[j]
        mC = model_of(space.packed_spec(names, cof)).map(lambda c: c[:, None])
        mD = model_of(space.packed_spec(names, u)).map(lambda c: c[None, :])
        mP = mC * mD
        spP = spec_of_model(mP, names=list(names))
        P = build_checked(spP)
        D = build_checked(space.packed_spec(names, u))
        judge_divmod(R, f"exact multiples {case['u']} cofactors {case['i0']}..{case['i1']} x all divisors", P, D[None, :], mP, mD,
                     ["packed", "exact_multiple", case["u"]], None, cofactor=mC)
        R.stat("pairs", len(cof) * len(u))
        for i in range(case["i0"], case["i1"]):
            R.state((case["u"], "cofactor", i))
    elif k == "U3":
        names, pool = U3()
        names = tuple(case.get("names", names))
        for i, ta in enumerate(pool):
            for j, tb in enumerate(pool):
                spa, spb = space.scalar_spec(names, ta), space.scalar_spec(names, tb)
                judge_divmod(R, f"U3 {ta} / {tb}", build_checked(spa), build_checked(spb), model_of(spa), model_of(spb),
                             ["0-d", "U3"], {"k": "pair3", "i": i, "j": j})
                R.state(("U3", i, j))
    elif k == "pair3":
        names, pool = U3()
        spa, spb = space.scalar_spec(names, pool[case["i"]]), space.scalar_spec(names, pool[case["j"]])
        judge_divmod(R, "U3 pair", build_checked(spa), build_checked(spb), model_of(spa), model_of(spb), ["0-d", "U3"], None)
    elif k == "arrays" and case.get("errstate"):
        # the same arrays (divisors without zero elements) while numpy is told to raise on every floating-point error: elements
        # that sit out a step must not be divided at all
        with numpy.errstate(divide="raise", invalid="raise", over="raise"):
            run_arrays(R, nonzero_divisors=True, tag="errstate=raise")
    elif k == "arrays":
        run_arrays(R)
    elif k == "magnitudes":
        # float coefficients of very different magnitude: products of an element that sits out a step must not leak into it
        names = ("q0",)
        # quotients far below 1 (large constant divisors, large leading coefficients): nothing is "converged" at 1e-3
        for dv in (4096, 1e5, -65536):   # quotient terms stay far above the documented cutoff of 1e-30
            for t in ([((1,), 1), ((0,), 3)], [((2,), 1), ((1,), 1), ((0,), 1)], [((3,), 0.5)]):
                spa = space.scalar_spec(names, [(e_, float(c_)) for e_, c_ in t], "f8")
                spb = space.scalar_spec(names, [((0,), float(dv))], "f8")
                judge_divmod(R, f"small quotient {t} / {dv}", build_checked(spa), build_checked(spb), model_of(spa), model_of(spb), ["magnitudes", "small_quotient"], None)
                spc = space.scalar_spec(names, [((1,), float(dv)), ((0,), 1.0)], "f8")
                judge_divmod(R, f"small quotient {t} / ({dv}*q0+1)", build_checked(spa), build_checked(spc), model_of(spa), model_of(spc), ["magnitudes", "small_quotient"], None)
                spd = space.array_spec(names, (2,), [[((0,), float(dv))], [((1,), float(dv)), ((0,), 2.0)]], "f8")
                spe = space.array_spec(names, (2,), [[(e_, float(c_)) for e_, c_ in t]] * 2, "f8")
                judge_divmod(R, f"small quotient array {t} / [{dv}, {dv}*q0+2]", build_checked(spe), build_checked(spd), model_of(spe), model_of(spd), ["magnitudes", "small_quotient"], None)
        for big in (1e200, 1e-200, 1e300):
            for da, db in itertools.product(([3, 3], [3, 1], [2, 0], [1, 3]), ([1, 2], [2, 1], [0, 2], [1, 1])):
                spa = space.array_spec(names, (2,), [[((da[0],), big)], [((da[1],), big), ((0,), 1.0)]], "f8")
                spb = space.array_spec(names, (2,), [[((db[0],), big)], [((db[1],), big / 4)]], "f8")
                judge_divmod(R, f"magnitudes {big} degrees {da}/{db}", build_checked(spa), build_checked(spb), model_of(spa), model_of(spb), ["magnitudes"], None)
                R.state(("mag", big, str(da), str(db)))
    elif k == "floats":
        names = ("q0",)
        pool = [[((2,), 0.5), ((0,), -1.5)], [((1,), 2.0)], [((0,), 0.25)], [((3,), 1.0), ((1,), 0.5)], [((1,), -1.5), ((0,), 1.0)], []]
        for i, ta in enumerate(pool):
            for j, tb in enumerate(pool):
                spa, spb = space.scalar_spec(names, ta, "f8"), space.scalar_spec(names, tb, "f8")
                judge_divmod(R, f"float {ta} / {tb}", build_checked(spa), build_checked(spb), model_of(spa), model_of(spb), ["float"], None)
                spb2 = space.scalar_spec(names, [(e, int(c * 4)) for e, c in tb], "i8")
                judge_divmod(R, f"float/int {ta} / {spb2['t']}", build_checked(spa), build_checked(spb2), model_of(spa), model_of(spb2), ["float"], None)
                R.state(("float", i, j))
        # numeric operands of every kind
        p = build_checked(space.scalar_spec(names, pool[0], "f8"))
        mp = model_of(space.scalar_spec(names, pool[0], "f8"))
        for other in (2, 0.5, numpy.float64(4), numpy.int64(-2), numpy.array(2.0), [2, 4], numpy.array([1, -2])):
            mo = V.const(numpy.asarray(other))
            judge_divmod(R, f"poly / {type(other).__name__}", p, other, mp, mo, ["numeric_divisor"], None)
            judge_divmod(R, f"{type(other).__name__} / poly", other, p, mo, mp, ["numeric_dividend"], None)
    elif k == "spellings":
        names = ("q0",)
        pool = [[((2,), 1), ((0,), -1)], [((1,), 2)], [((0,), 2)], [((3,), 1), ((1,), 1)], [((1,), 1), ((0,), 1)], []]
        polys = [build_checked(space.scalar_spec(names, t)) for t in pool]
        arr = build_checked(space.array_spec(names, (3,), pool[:3]))
        arr2 = build_checked(space.array_spec(("q0", "q1"), (2,), [[((1, 1), 2), ((0, 0), 1)], [((0, 2), 1)]]))
        mono = build_checked(space.scalar_spec(("q0", "q1"), [((0, 1), 1)]))
        others = [2, 0.5, -3, 0, numpy.int64(2), numpy.float64(0.25), numpy.array([1, 2, 4]), [2, 4, 8], 1e40, 2j]
        operands = polys + [arr]
        for a in operands:
            for b in operands + others:
                judge_spellings(R, f"{a} op {b}", a, b, ["spellings"], None)
                if not isinstance(b, numpoly.ndpoly):
                    judge_spellings(R, f"reflected {b} op {a}", b, a, ["spellings", "reflected"], None)
            R.state(("sp", str(a)))
        judge_spellings(R, "two-name array / monomial", arr2, mono, ["spellings"], None)
        judge_spellings(R, "two-name array / number", arr2, 2, ["spellings"], None)
    else:
        raise KeyError(k)


def post(agg, tier, seed, cov):
    cov["pairs_decided_packed"] = agg["stats"].get("pairs", 0)
    cov["hook_activations"] = {"division_loop_monitor": "see stats.monitor_iterations"}
    return []
