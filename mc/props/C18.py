"""C18  Exponent index generation and sorting are exact and platform-independent (E1 x configurations)."""
import itertools
import json
import math
import os
import subprocess
import sys
from fractions import Fraction

import numpy

from .. import tree  # noqa: F401
import numpoly

from ..snap import recall

from ..alpha import alpha, wellformed
from ..model import V, exact_array

ID = "C18"
CASE_BUDGET_S = 1200
FLAGS = [(False, False), (True, False), (False, True), (True, True)]   # (graded, reverse)
NORMS = [0, 0.5, 0.8, 1, 2, math.inf]
CPU_CONFIGS = {"no-avx512": "AVX512_SPR AVX512_ICL AVX512_SKX AVX512_CLX AVX512_CNL AVX512F X86_V4",
               "baseline": "AVX512_SPR AVX512_ICL AVX512_SKX AVX512_CLX AVX512_CNL AVX512F X86_V4 AVX2 FMA3 X86_V3"}

META = {
    "rule": "glexsort: EVERY key matrix with entries in {0,1,2} of size d x n for d<=3,n<=4 and d<=2,n<=6 (quick; d=3 n=5 in "
            "thorough) x 4 (graded, reverse) settings, plus structured large families (all monomials of degree<=k in d<=4 "
            "dimensions, n=15..495, in every rotation, reversed and in every coprime stride arrangement), in thorough also under "
            "two reduced CPU-dispatch configurations of numpy (NPY_DISABLE_CPU_FEATURES, separate processes); glexindex / bindex "
            "(all orderings) / monomial: every (start, stop) with start<=stop, scalar and per-dimension bounds <=4, dimensions<=3, "
            "cross_truncation in {0,.5,.8,1,2,inf} and two-value forms, graded, reverse; cross_truncate on all grids [0,4)^d with "
            "bounds in {-1..3}^d. Oracles: comparison-based sortedness + permutation; brute-force enumeration of the box with exact "
            "rational norms (float norms .5/.8 with a 1e-9 ambiguity band). distinct = (function, arguments).",
    "bounds": lambda tier: {"glexsort_exhaustive": "d<=3,n<=4; d<=2,n<=6" + ("; d=3,n=5" if tier == "thorough" else ""),
                            "families_n": [15, 35, 70, 165, 495], "index_bound": 4, "dims": 3},
    "assumptions": ["for start > stop 'between the bounds' is not defined and nothing is demanded",
                    "CPU dispatch other than what NPY_DISABLE_CPU_FEATURES can emulate on this machine is not explored"],
}


def refkey(e, graded, reverse):
    e = tuple(int(x) for x in e)
    lex = e if reverse else e[::-1]
    return ((sum(e),) if graded else ()) + lex


def check_sort(keys, idx, graded, reverse):
    """-> complaint or None.  keys: (d, n) array"""
    n = keys.shape[1]
    idx = numpy.asarray(idx)
    if idx.shape != (n,):
        return f"result shape {idx.shape} != ({n},)"
    if sorted(int(i) for i in idx) != list(range(n)):
        return f"not a permutation: {idx.tolist()}"
    cols = [refkey(keys[:, int(i)], graded, reverse) for i in idx]
    for a, b in zip(cols, cols[1:]):
        if a > b:
            return f"columns not sorted: order {idx.tolist()[:12]} gives keys {cols[:6]}"
    return None


# ---- structured families ---------------------------------------------------------------------
def family_arrangements():
    for d, k in ((2, 4), (3, 4), (4, 4), (3, 8), (4, 8)):
        monos = [e for e in itertools.product(range(k + 1), repeat=d) if sum(e) <= k]
        base = numpy.array(monos).T          # (d, n)
        n = base.shape[1]
        perms = [("identity", numpy.arange(n)), ("reversed", numpy.arange(n)[::-1])]
        rots = range(1, n) if n <= 170 else range(1, n, 7)
        perms += [(f"rotation {r}", numpy.roll(numpy.arange(n), r)) for r in rots]
        strides = [s for s in range(2, n) if math.gcd(s, n) == 1]
        strides = strides if n <= 70 else strides[::max(1, len(strides) // 40)]
        perms += [(f"stride {s}", (numpy.arange(n) * s) % n) for s in strides]
        for label, perm in perms:
            yield f"monomials deg<={k} d={d} n={n} {label}", base[:, perm]


def run_families(report):
    n = 0
    for label, keys in family_arrangements():
        for graded, reverse in FLAGS:
            n += 1
            try:
                idx = numpoly.glexsort(keys, graded=graded, reverse=reverse)
            except Exception as err:  # noqa: BLE001
                report(label, graded, reverse, f"{type(err).__name__}: {err}")
                continue
            bad = check_sort(keys, idx, graded, reverse)
            if bad:
                report(label, graded, reverse, bad)
    return n


# ---- glexindex reference -----------------------------------------------------------------------
def inside(x, bound, q):
    """-> True / False / None (ambiguous within 1e-9 for float norms)"""
    if any(b < 0 for b in bound):
        return False
    for xi, b in zip(x, bound):
        if b == 0 and xi != 0:
            return False
    xs = [(xi, b) for xi, b in zip(x, bound) if b != 0]
    if not xs:
        return True
    if q == 0:
        return sum(1 for xi, b in xs if xi > 0) <= 1 and all(xi <= b for xi, b in xs)
    if q == math.inf:
        return all(xi <= b for xi, b in xs)
    if q == 1:
        return sum(Fraction(xi, b) for xi, b in xs) <= 1
    if q == 2:
        return sum(Fraction(xi, b) ** 2 for xi, b in xs) <= 1
    v = sum((xi / b) ** q for xi, b in xs) ** (1.0 / q)
    if abs(v - 1) < 1e-9:
        if all(xi == 0 for xi, _ in xs) or sum(1 for xi, _ in xs if xi) == 1 and all(xi in (0, b) for xi, b in xs):
            return True   # exactly on the boundary by construction
        return None
    return v <= 1


def ref_glexindex(start, stop, D, ct, graded, reverse):
    """-> (sure list in order, ambiguous set)"""
    start = numpy.broadcast_to(numpy.array(start, dtype=int).flatten(), (D,))
    stop = numpy.broadcast_to(numpy.array(stop, dtype=int).flatten(), (D,))
    ct = numpy.ones(2) * ct
    bound = int(stop.max())
    sure, amb = [], set()
    if bound <= 0:
        return [], set()
    lo = [int(s) - 1 for s in numpy.clip(start, 0, None)]
    hi = [int(s) - 1 for s in stop]
    for x in itertools.product(range(bound), repeat=D):
        if D == 1:
            ok = int(numpy.clip(start, 0, None)[0]) <= x[0] < bound
        else:
            a, b = inside(x, lo, ct[0]), inside(x, hi, ct[1])
            if a is None or b is None:
                amb.add(x)
                continue
            ok = a != b
        if ok:
            sure.append(x)
    sure.sort(key=lambda e: refkey(e, graded, reverse))
    return sure, amb


def compare_index(got, sure, amb, graded, reverse):
    got = [tuple(int(v) for v in row) for row in numpy.asarray(got).reshape(-1, len(sure[0]) if sure else numpy.asarray(got).shape[-1] if numpy.asarray(got).ndim == 2 else 1)]
    if len(set(got)) != len(got):
        return f"duplicates in {got[:10]}"
    core = [g for g in got if g not in amb]
    if core != sure:
        missing = [s for s in sure if s not in core]
        extra = [g for g in core if g not in sure]
        if missing or extra:
            return f"missing {missing[:6]} extra {extra[:6]} (got {len(got)} expected {len(sure)})"
        return f"wrong order: got {core[:8]} expected {sure[:8]}"
    keys = [refkey(g, graded, reverse) for g in got]
    if any(a > b for a, b in zip(keys, keys[1:])):
        return f"wrong order (with boundary cases): {got[:8]}"
    return None


def index_args(D, bound):
    scal = list(range(0, bound + 1))
    starts = list(scal)
    stops = list(scal)
    if D > 1:
        starts += [list(t) for t in itertools.product(range(0, min(bound, 3)), repeat=D)]
        stops += [list(t) for t in itertools.product(range(1, bound + 1), repeat=D)]
    for start in starts:
        for stop in stops:
            s, t = numpy.broadcast_to(numpy.array(start).ravel(), (D,)), numpy.broadcast_to(numpy.array(stop).ravel(), (D,))
            if numpy.all(s <= t):
                yield start, stop


def cases(tier, seed):
    out = []
    shapes = [(1, n) for n in range(1, 7)] + [(2, n) for n in range(1, 7)] + [(3, n) for n in range(1, 5)]
    if tier == "thorough":
        shapes.append((3, 5))
    for d, n in shapes:
        total = 3 ** (d * n)
        parts = max(1, total // 20000)
        for part in range(parts):
            out.append({"k": "sortall", "d": d, "n": n, "part": part, "parts": parts})
    out.append({"k": "families"})
    for d, n in ((1, 4), (2, 2), (2, 3), (2, 4), (3, 2), (3, 3)):
        total = 5 ** (d * n)
        parts = max(1, total // 30000)
        for part in range(parts):
            out.append({"k": "sortall", "d": d, "n": n, "part": part, "parts": parts, "values": [0, 1, 1700, 70000, 2147483647]})
    for D in (1, 2, 3):
        args = list(index_args(D, 4))
        for i0 in range(0, len(args), 40):
            out.append({"k": "index", "D": D, "i0": i0, "i1": min(len(args), i0 + 40)})
    out.append({"k": "truncate"})
    for D in (1, 2, 3):
        for ct in (1, math.inf, 0.5, 0):
            out.append({"k": "monomial", "D": D, "ct": "inf" if ct == math.inf else ct})
    if tier == "thorough":
        for name in CPU_CONFIGS:
            out.append({"k": "dispatch", "cfg": name})
    out.sort(key=lambda c: 0 if c["k"] in ("families", "dispatch") else 1)
    return out


def run_case(case, R):
    k = case["k"]
    if k == "sortall":
        d, n = case["d"], case["n"]
        values = case.get("values", [0, 1, 2])
        base = len(values)
        total = base ** (d * n)
        lo = total * case["part"] // case["parts"]
        hi = total * (case["part"] + 1) // case["parts"]
        digits = d * n
        for code in range(lo, hi):
            x = code
            flat = []
            for _ in range(digits):
                flat.append(values[x % base])
                x //= base
            keys = numpy.array(flat).reshape(d, n)
            if base > 3 and code % 2:
                keys = keys.astype(numpy.uint32)     # the library passes uint32 exponent tables
            # a single key row may be handed over as a 1-d array or a plain list, a matrix also as nested lists
            forms = [keys] + ([keys[0], keys[0].tolist(), tuple(keys[0].tolist())] if d == 1 else [keys.tolist()] if code % 3 == 2 else [])
            for given, (graded, reverse) in itertools.product(forms, FLAGS):
                R.tr()
                try:
                    idx = numpoly.glexsort(given, graded=graded, reverse=reverse)
                except Exception as err:  # noqa: BLE001
                    R.fail("glexsort", "exception", f"keys {given!r} graded={graded} reverse={reverse}: {type(err).__name__}: {err}",
                           tags=[f"graded={graded}", f"reverse={reverse}"], sub={"k": "sortone", "keys": keys.tolist(), "g": graded, "r": reverse})
                    continue
                bad = check_sort(keys, idx, graded, reverse)
                if bad:
                    R.fail("glexsort", "wrong-value", f"keys {keys.tolist()} graded={graded} reverse={reverse}: {bad}",
                           tags=[f"graded={graded}", f"reverse={reverse}", f"n={n}"], sub={"k": "sortone", "keys": keys.tolist(), "g": graded, "r": reverse})
        R.state(("sortall", d, n, case["part"], base))
        for fl in FLAGS:
            R.outcome(("sortall", d, n, case["part"], fl))
        R.stat("key_matrices", hi - lo)
        R.sample({"keys": keys.tolist(), "flags": FLAGS})
    elif k == "sortone":
        keys = numpy.array(case["keys"])
        R.tr()
        bad = check_sort(keys, numpoly.glexsort(keys, graded=case["g"], reverse=case["r"]), case["g"], case["r"])
        if bad:
            R.fail("glexsort", "wrong-value", bad)
    elif k == "families":
        def report(label, graded, reverse, what):
            R.fail("glexsort", "wrong-value", f"{label} graded={graded} reverse={reverse}: {what}", tags=["family", f"graded={graded}"])
        n = run_families(report)
        R.tr(n)
        R.state("families")
        R.stat("family_arrangements", n)
    elif k == "dispatch":
        env = dict(os.environ, NPY_DISABLE_CPU_FEATURES=CPU_CONFIGS[case["cfg"]], VERIF_REPO=tree.REPO)
        proc = subprocess.run([sys.executable, "-m", "mc.props.C18"], env=env, capture_output=True, text=True,
                              cwd=os.path.dirname(os.path.dirname(os.path.dirname(os.path.abspath(__file__)))), timeout=900)
        if proc.returncode != 0:
            raise RuntimeError("dispatch subprocess failed: " + proc.stderr[-500:])
        res = json.loads(proc.stdout.strip().splitlines()[-1])
        R.tr(res["n"])
        R.state(("dispatch", case["cfg"]))
        R.stat("dispatch_runs:" + case["cfg"], res["n"])
        for f in res["fails"][:20]:
            R.fail("glexsort", "wrong-value", f"[cpu dispatch {case['cfg']}] {f}", tags=["family", "dispatch=" + case["cfg"]])
    elif k == "index":
        D = case["D"]
        args = list(index_args(D, 4))[case["i0"]:case["i1"]]
        cts = list(NORMS) + [(0, 1), (1, 2), (0.5, math.inf)]
        for start, stop in args:
            R.state(("index", D, str(start), str(stop)))
            for ct in cts:
                for graded, reverse in FLAGS:
                    ctv = ct if not isinstance(ct, tuple) else list(ct)
                    sure, amb = ref_glexindex(start, stop, D, ct if not isinstance(ct, tuple) else numpy.array(ct), graded, reverse)
                    tags = [f"D={D}", f"norm={ct}", f"graded={graded}", f"reverse={reverse}"]
                    lab = f"start={start} stop={stop} D={D} cross_truncation={ct} graded={graded} reverse={reverse}"
                    sub = {"k": "index1", "start": start, "stop": stop, "D": D, "ct": ctv if ctv != math.inf else "inf", "g": graded, "r": reverse}
                    R.tr()
                    try:
                        got = numpoly.glexindex(start, stop, D, cross_truncation=ctv, graded=graded, reverse=reverse)
                    except Exception as err:  # noqa: BLE001
                        R.fail("glexindex", "exception", f"{lab}: {type(err).__name__}: {err}", tags=tags)
                        continue
                    recall(R, "glexindex", lab, lambda: numpoly.glexindex(start, stop, D, cross_truncation=ctv, graded=graded, reverse=reverse), got, tags)
                    try:
                        got = numpoly.glexindex(start, stop, D, cross_truncation=ctv, graded=graded, reverse=reverse)
                    except Exception as err:  # noqa: BLE001
                        R.fail("glexindex", "exception", f"{lab} (second call): {type(err).__name__}: {err}", tags=tags)
                        continue
                    got = numpy.asarray(got)
                    bad = None
                    if got.ndim != 2 or got.shape[1] != D:
                        bad = f"shape {got.shape}"
                    else:
                        bad = compare_index_rows(got, sure, amb, graded, reverse)
                    if bad:
                        R.fail("glexindex", "wrong-value", f"{lab}: {bad}", tags=tags)
                    else:
                        R.outcome(("glexindex", lab))
                    if amb:
                        R.stat("boundary_ambiguous")
            # every optional argument left at its default (graded=False, reverse=False, cross_truncation=1; ordering "G" for bindex)
            sure0, amb0 = ref_glexindex(start, stop, D, 1, False, False)
            sureG, ambG = ref_glexindex(start, stop, D, 1, True, True)    # bindex default ordering "G": graded, reverse (no "R" in the string)
            for lab0, f0, (su, am, g0, r0) in (("glexindex(start, stop, D)", lambda: numpoly.glexindex(start, stop, D), (sure0, amb0, False, False)),
                                               ("glexindex(start=, stop=, dimensions=)", lambda: numpoly.glexindex(start=start, stop=stop, dimensions=D), (sure0, amb0, False, False)),
                                               ("bindex(start, stop, D)", lambda: numpoly.bindex(start, stop, D), (sureG, ambG, True, True))):
                R.tr()
                try:
                    got0 = numpy.asarray(f0())
                except Exception as err:  # noqa: BLE001
                    R.fail(lab0.split("(")[0], "exception", f"{lab0} start={start} stop={stop} D={D}: {type(err).__name__}: {err}", tags=[f"D={D}", "defaults"])
                    continue
                bad0 = compare_index_rows(got0.reshape(-1, D), su, am, g0, r0) if got0.size else (None if not su else "empty result")
                if D == 1 and not bad0 and not isinstance(start, list) and not isinstance(stop, list) and lab0.startswith("glexindex(start, stop, D)"):
                    # one dimension is the default: dimensions omitted, and only the stop bound given when start is 0
                    alts = [("bindex(start, stop)", lambda: numpoly.bindex(start, stop)), ("glexindex(start, stop)", lambda: numpoly.glexindex(start, stop))]
                    if start == 0:
                        alts += [("bindex(stop)", lambda: numpoly.bindex(stop)), ("glexindex(stop)", lambda: numpoly.glexindex(stop))]
                    for lab1, f1 in alts:
                        R.tr()
                        try:
                            g1 = numpy.asarray(f1()).reshape(-1, 1)
                            if g1.tolist() != got0.reshape(-1, 1).tolist():
                                R.fail(lab1.split("(")[0], "wrong-value", f"{lab1} start={start} stop={stop}: {g1.ravel().tolist()} != with dimensions=1 {got0.ravel().tolist()}", tags=["D=1", "defaults"])
                        except Exception as err:  # noqa: BLE001
                            R.fail(lab1.split("(")[0], "exception", f"{lab1} start={start} stop={stop}: {type(err).__name__}: {err}", tags=["D=1", "defaults"])
                if bad0:
                    R.fail(lab0.split("(")[0], "wrong-value", f"{lab0} start={start} stop={stop} D={D} with defaults: {bad0}", tags=[f"D={D}", "defaults"])
            # bindex orderings (default norm and inf)
            for ordering in ("G", "GR", "R", "", "GI", "GRI", "I", "RI"):
                for ct in (1, math.inf, 0.5):
                    graded, reverse = "G" in ordering, "R" not in ordering
                    sure, amb = ref_glexindex(start, stop, D, ct, graded, reverse)
                    if "I" in ordering:
                        sure = sure[::-1]
                    R.tr()
                    lab = f"bindex start={start} stop={stop} D={D} ordering={ordering!r} cross_truncation={ct}"
                    try:
                        first = numpoly.bindex(start, stop, D, ordering=ordering, cross_truncation=ct)
                        recall(R, "bindex", lab, lambda: numpoly.bindex(start, stop, D, ordering=ordering, cross_truncation=ct), first, [f"D={D}"])
                        got = numpy.asarray(numpoly.bindex(start, stop, D, ordering=ordering, cross_truncation=ct))
                    except Exception as err:  # noqa: BLE001
                        R.fail("bindex", "exception", f"{lab}: {type(err).__name__}: {err}", tags=[f"D={D}"])
                        continue
                    rows = [tuple(int(v) for v in r) for r in got.reshape(-1, D)]
                    core = [r for r in rows if r not in amb]
                    if core != sure or len(set(rows)) != len(rows):
                        R.fail("bindex", "wrong-value", f"{lab}: got {rows[:8]} expected {sure[:8]}", tags=[f"D={D}", f"ordering={ordering}"])
        R.sample({"start": start, "stop": stop, "D": D, "norms": [str(c) for c in cts]})
    elif k == "truncate":
        for d in (1, 2, 3):
            grid = numpy.array(list(itertools.product(range(4), repeat=d)))
            for bound in itertools.product(range(-1, 4), repeat=d):
                for q in NORMS:
                    R.tr()
                    try:
                        first = numpoly.cross_truncate(grid, numpy.array(bound), q)
                        recall(R, "cross_truncate", f"bound={bound} norm={q}", lambda: numpoly.cross_truncate(grid, numpy.array(bound), q), first, [f"d={d}"], {"grid": grid})
                        got = numpy.asarray(numpoly.cross_truncate(grid, numpy.array(bound), q))
                    except Exception as err:  # noqa: BLE001
                        R.fail("cross_truncate", "exception", f"bound={bound} norm={q}: {type(err).__name__}: {err}", tags=[f"d={d}"])
                        continue
                    want = [inside(tuple(x), list(bound), q) for x in grid.tolist()]
                    bad = [(tuple(x), bool(g), w) for x, g, w in zip(grid.tolist(), got.tolist(), want) if w is not None and bool(g) != w]
                    if got.shape != (len(grid),) or bad:
                        R.fail("cross_truncate", "wrong-value", f"grid [0,4)^{d} bound={bound} norm={q}: {bad[:5]}", tags=[f"d={d}", f"norm={q}"])
                    R.state(("trunc", d, bound, q))
            # scalar bound
            for b in range(-1, 4):
                for q in NORMS:
                    R.tr()
                    got = numpy.asarray(numpoly.cross_truncate(grid, b, q))
                    want = [inside(tuple(x), [b] * d, q) for x in grid.tolist()]
                    bad = [(tuple(x), bool(g), w) for x, g, w in zip(grid.tolist(), got.tolist(), want) if w is not None and bool(g) != w]
                    if bad:
                        R.fail("cross_truncate", "wrong-value", f"grid [0,4)^{d} scalar bound={b} norm={q}: {bad[:5]}", tags=[f"d={d}"])
    elif k == "monomial":
        for D in (case["D"],):
            names = ("q0", "q1", "q2")[:D]
            for start, stop in list(index_args(D, 3)):
                for ct in (math.inf if case["ct"] == "inf" else case["ct"],):
                    for graded, reverse in FLAGS:
                        sure, amb = ref_glexindex(start, stop, D, ct, graded, reverse)
                        if amb:
                            continue
                        # with a per-dimension bound the number of indeterminates may be left to the bounds (dimensions omitted), and
                        # the names may be given instead of a number
                        for dform in (["int"] + (["omitted"] if isinstance(start, list) or isinstance(stop, list) else []) + (["names"] if graded and not reverse else [])):
                            if dform == "int":
                                continue
                            R.tr()
                            kw = {} if dform == "omitted" else {"dimensions": names}
                            lab2 = f"monomial({start}, {stop}, dimensions {dform}, cross_truncation={ct}, graded={graded}, reverse={reverse})"
                            try:
                                alt = numpoly.monomial(start, stop, cross_truncation=ct, graded=graded, reverse=reverse, **kw)
                                ref_ = numpoly.monomial(start, stop, dimensions=D, cross_truncation=ct, graded=graded, reverse=reverse)
                                if sure and (wellformed(alt) or tuple(alt.names) != tuple(ref_.names) or alt.shape != ref_.shape or alpha(alt) != alpha(ref_)):
                                    R.fail("monomial", "wrong-value", f"{lab2}: {str(alt)[:120]} with names {alt.names}, with dimensions={D}: {str(ref_)[:120]}", tags=[f"D={D}", f"dimensions={dform}"])
                            except Exception as err:  # noqa: BLE001
                                if sure:
                                    R.fail("monomial", "exception", f"{lab2}: {type(err).__name__}: {err}", tags=[f"D={D}", f"dimensions={dform}"])
                        if not graded and not reverse and ct == 1:
                            # every optional argument left at its default
                            R.tr()
                            try:
                                d0 = numpoly.monomial(start, stop, dimensions=D)
                                e0 = numpoly.monomial(start, stop, dimensions=D, cross_truncation=1, graded=False, reverse=False)
                                if sure and (d0.shape != e0.shape or alpha(d0) != alpha(e0) or tuple(d0.names) != tuple(e0.names)):
                                    R.fail("monomial", "wrong-value", f"monomial({start}, {stop}, dimensions={D}) with defaults: {str(d0)[:100]} != explicit defaults {str(e0)[:100]}", tags=[f"D={D}", "defaults"])
                            except Exception as err:  # noqa: BLE001
                                if sure:
                                    R.fail("monomial", "exception", f"monomial({start}, {stop}, dimensions={D}) with defaults: {type(err).__name__}: {err}", tags=[f"D={D}", "defaults"])
                        R.tr()
                        lab = f"monomial({start}, {stop}, dimensions={D}, cross_truncation={ct}, graded={graded}, reverse={reverse})"
                        try:
                            got = numpoly.monomial(start, stop, dimensions=D, cross_truncation=ct, graded=graded, reverse=reverse)
                        except Exception as err:  # noqa: BLE001
                            if not sure:
                                R.stat("monomial_empty_raises")
                                continue
                            R.fail("monomial", "exception", f"{lab}: {type(err).__name__}: {err}", tags=[f"D={D}"])
                            continue
                        if not sure:
                            R.stat("monomial_empty")
                            continue
                        recall(R, "monomial", lab, lambda: numpoly.monomial(start, stop, dimensions=D, cross_truncation=ct, graded=graded, reverse=reverse), got, [f"D={D}"])
                        got = numpoly.monomial(start, stop, dimensions=D, cross_truncation=ct, graded=graded, reverse=reverse)
                        t = {}
                        for i, e in enumerate(sure):
                            col = numpy.zeros(len(sure), dtype=int)
                            col[i] = 1
                            t[frozenset((n, x) for n, x in zip(names, e) if x)] = exact_array(col)
                        exp = V(t, (len(sure),))
                        if not isinstance(got, numpoly.ndpoly) or wellformed(got) or alpha(got) != exp or tuple(got.names) != names:
                            R.fail("monomial", "wrong-value", f"{lab}: got {got!r}"[:300], tags=[f"D={D}"])
                        R.state(("mono", D, str(start), str(stop), ct, graded, reverse))
        for nm, want in ((("q2", "q4"), ("q2", "q4")), ("q3", ("q3",))) if (case["D"], case["ct"]) == (1, 1) else ():
            R.tr()
            got = numpoly.monomial(0, 3, dimensions=nm)
            if tuple(got.names) != want:
                R.fail("monomial", "wrong-value", f"monomial names {got.names} != {want}", tags=["names"])
    elif k == "index1":
        ct = case["ct"]
        ct = math.inf if ct == "inf" else (numpy.array([math.inf if c == "inf" else c for c in ct]) if isinstance(ct, list) else ct)
        sure, amb = ref_glexindex(case["start"], case["stop"], case["D"], ct, case["g"], case["r"])
        R.tr()
        got = numpy.asarray(numpoly.glexindex(case["start"], case["stop"], case["D"], cross_truncation=ct, graded=case["g"], reverse=case["r"]))
        bad = compare_index_rows(got, sure, amb, case["g"], case["r"])
        if bad:
            R.fail("glexindex", "wrong-value", bad)
    else:
        raise KeyError(k)


def compare_index_rows(got, sure, amb, graded, reverse):
    rows = [tuple(int(v) for v in r) for r in got]
    if len(set(rows)) != len(rows):
        return f"duplicates in {rows[:10]}"
    core = [r for r in rows if r not in amb]
    if core != sure:
        missing = [s for s in sure if s not in core]
        extra = [g for g in core if g not in sure]
        if missing or extra:
            return f"missing {missing[:6]} extra {extra[:6]} (got {len(rows)} expected {len(sure)})"
        return f"wrong order: got {core[:8]} expected {sure[:8]}"
    keys = [refkey(g, graded, reverse) for g in rows]
    if any(a > b for a, b in zip(keys, keys[1:])):
        return f"wrong order: {rows[:8]}"
    return None


if __name__ == "__main__":
    fails = []
    n = run_families(lambda label, g, r, what: fails.append(f"{label} graded={g} reverse={r}: {what}"))
    print(json.dumps({"n": n, "fails": fails[:50], "cpu": os.environ.get("NPY_DISABLE_CPU_FEATURES", "")}))
