"""C06  Derivative, gradient and Hessian are the formal partial derivatives (E1 x 16 option configurations)."""
import itertools

import numpy

from .. import tree  # noqa: F401
import numpoly

from ..alpha import alpha, build_checked, model_of, spec, wellformed
from ..model import V
from .. import space
from . import C09

ID = "C06"
CASE_BUDGET_S = 900

CONFIGS = list(itertools.product([True, False], repeat=4))   # retain_names, retain_coefficients, sort_graded, sort_reverse

META = {
    "rule": "all 154 polynomials of U0 (two names), a three-name universe incl. q10 (<=2 terms), bool/float/complex/int32 "
            "coefficient variants and tagged arrays of 5 shapes x 3 representations x every variable designation (name, positional "
            "index, indeterminate from variable(n), from symbols(name), element of p.indeterminants) x all sequences of 1-2 "
            "variables (3 for a subset) x the 16 settings of retain_names/retain_coefficients/sort_graded/sort_reverse; gradient "
            "and hessian on the same inputs; product rule on all pairs of a 12-element pool. Oracle: formal derivative in the "
            "model. distinct = (polynomial, designation sequence, configuration).",
    "bounds": {"U0": 154, "configs": 16, "max_sequence": 3},
    "assumptions": ["gradient/hessian order = order of the names of the argument as passed"],
}


def cfg_kw(cfg):
    rn, rc, sg, sr = cfg
    return {"retain_names": rn, "retain_coefficients": rc, "sort_graded": sg, "sort_reverse": sr}


def designations(p, name):
    """the ways of designating indeterminate `name` of polynomial p"""
    i = p.names.index(name)
    out = [("name", name), ("index", i), ("symbols", numpoly.symbols(name))]
    n = max(int(name[1:]) + 1, 1)
    if n <= 11:
        out.append(("variable(n)[i]", numpoly.variable(n)[int(name[1:])] if n > 1 else numpoly.variable(1)))
    out.append(("p.indeterminants[i]", p.indeterminants[i]))
    sym = numpoly.symbols(name)
    # the same indeterminate carried by polynomials with an explicit zero constant term / foreign unused names
    out.append(("polynomial([1, sym])[1]", numpoly.polynomial([1, sym])[1]))
    out.append(("sym + 0", sym + 0))
    out.append(("align_polynomials(sym, p)[0]", numpoly.align_polynomials(sym, p)[0] if not p.shape else numpoly.align_exponents(sym, p)[0]))
    return out


def judge(R, label, f, expected, tags, sub=None, names=None):
    R.tr()
    try:
        got = f()
    except Exception as err:  # noqa: BLE001
        R.fail(label.split(" ")[0], "exception", f"{label}: {type(err).__name__}: {err}", tags=tags, sub=sub)
        return
    if not isinstance(got, numpoly.ndpoly):
        R.fail(label.split(" ")[0], "wrong-value", f"{label}: result type {type(got).__name__}", tags=tags, sub=sub)
        return
    w = wellformed(got)
    if w:
        R.fail(label.split(" ")[0], "wrong-value", f"{label}: ill-formed {w}", tags=tags, sub=sub)
        return
    a = alpha(got)
    if a.shape != expected.shape:
        R.fail(label.split(" ")[0], "wrong-value", f"{label}: shape {a.shape} != {expected.shape}", tags=tags, sub=sub)
    elif a != expected:
        R.fail(label.split(" ")[0], "wrong-value", f"{label}: {a!r} != {expected!r}"[:450], tags=tags, sub=sub)
    else:
        R.outcome((label, expected.key()))


def stack_models(ms, shape):
    """model of numpy.stack of model values along a new first axis"""
    return C09.vmap_multi(lambda cs: numpy.stack([numpy.broadcast_to(c, shape) for c in cs], axis=0), ms)


def check_poly(R, sp, lab, cfgs, seqlen=2, desig_kinds=None):
    m = model_of(sp)
    names = tuple(sp["n"])
    for cfg in cfgs:
        tags = [f"retain_names={cfg[0]}", f"retain_coefficients={cfg[1]}", f"sort_graded={cfg[2]}", f"sort_reverse={cfg[3]}"]
        with numpoly.global_options(**cfg_kw(cfg)):
            p = build_checked(sp)
            for k in range(1, seqlen + 1):
                for seq in itertools.product(names, repeat=k):
                    exp = m
                    for nm in seq:
                        exp = exp.diff(nm)
                    dlists = [designations(p, nm) for nm in seq]
                    # every designation kind in every position, others by name (plus the all-same-kind diagonal)
                    combos = set()
                    for pos in range(k):
                        for j in range(len(dlists[pos]) if k == 1 else min(5, len(dlists[pos]))):
                            combos.add(tuple(j if q == pos else 0 for q in range(k)))
                    for j in range(min(len(d) for d in dlists)):
                        combos.add(tuple(j for _ in range(k)))
                    if k >= 2 and cfg in (cfgs[0], cfgs[-1]):
                        # every mix of the designation classes (name / position / foreign polynomial / own indeterminate)
                        classes = [j for j, (kind, _) in enumerate(dlists[0]) if kind in ("name", "index", "symbols", "p.indeterminants[i]")]
                        combos.update(itertools.product(classes, repeat=k))
                    for combo in sorted(combos):
                        args = [dlists[pos][j][1] for pos, j in enumerate(combo)]
                        kinds = [dlists[pos][j][0] for pos, j in enumerate(combo)]
                        judge(R, f"derivative {lab} wrt {list(seq)} as {kinds} cfg={cfg}", lambda: numpoly.derivative(p, *args), exp,
                              tags + ["designation=" + "+".join(sorted(set(kinds))), f"nvars={k}"],
                              {"k": "one", "sp": sp, "seq": list(seq), "combo": list(combo), "cfg": list(cfg)})
            D = len(names)
            g = stack_models([m.diff(nm) for nm in names], m.shape)
            judge(R, f"gradient {lab} cfg={cfg}", lambda: numpoly.gradient(p), g, tags + ["gradient"],
                  {"k": "one", "sp": sp, "fn": "gradient", "cfg": list(cfg)})
            h = stack_models([stack_models([m.diff(a).diff(b) for b in names], m.shape) for a in names], (D,) + m.shape)
            judge(R, f"hessian {lab} cfg={cfg}", lambda: numpoly.hessian(p), h, tags + ["hessian"],
                  {"k": "one", "sp": sp, "fn": "hessian", "cfg": list(cfg)})


def U3():
    return space.universe(("q0", "q2", "q10"), 2, 2, [1, -2])


def cases(tier, seed):
    from .. import produced
    return _cases(tier, seed) + produced.case_list()


def _cases(tier, seed):
    out = []
    n = len(space.U0())
    for i in range(n):
        out.append({"k": "u0", "i": i})
    n3 = len(U3())
    for i in range(0, n3, 7 if tier == "quick" else 1):
        out.append({"k": "u3", "i": i})
    for shape in [(2,), (1, 3), (2, 2), (2, 1, 3), (1,)]:
        for var in ("canon", "T", "zeroterm", "rev"):
            if var == "T" and len(shape) < 2:
                continue
            out.append({"k": "arrays", "s": list(shape), "v": var})
    out.append({"k": "dtypes"})
    out.append({"k": "twins"})
    out.append({"k": "wide"})
    for i in range(6):
        out.append({"k": "unsorted_names", "i": i})
    out.append({"k": "product"})
    out.append({"k": "repeated"})
    out.sort(key=lambda c: {"unsorted_names": 0, "arrays": 1, "u3": 2, "product": 3}.get(c["k"], 4))
    return out


def run_case(case, R):
    if case.get("k") == "produced":
        from .. import produced
        return produced.run(R, ID, case["i0"], case["i1"])
    k = case["k"]
    if k == "repeated":
        # the same variable many times: the factor n(n-1)...(n-k+1) outgrows 8, 16 and 32 bits long before the int64 / float64
        # coefficients do (13! = 6227020800, 100*99*98*97*96, 70000*69999, 2**20 * (2**20 - 1), 300*299*298*297 > 2**32)
        R.state("repeated")
        for names in (("q0",), ("q0", "q1"), ("q2", "q10")):
            v = names[-1]
            for e, ks in ((13, (2, 12, 13, 14)), (21, (3, 7, 8)), (100, (2, 4, 5)), (300, (3, 4)), (70000, (1, 2)), (2 ** 20, (2,)), (255, (2, 4)), (256, (2, 5))):
                for dt in ("i8", "f8"):
                    if dt == "f8" and e == 13:
                        continue
                    other = (1,) * (len(names) - 1)
                    sp = spec(names, (2,), [(other + (e,), [1, -3]), (other + (1,), [2, 5]), ((0,) * len(names), [7, 0])], dt)
                    p = build_checked(sp)
                    m = model_of(sp)
                    for kk in ks:
                        exp = m
                        for _ in range(kk):
                            exp = exp.diff(v)
                        for dname, d in (("name", v), ("symbol", numpoly.symbols(v))):
                            judge(R, f"derivative {kk}-fold wrt {v} ({dname}) of degree {e} {dt} names {names}", lambda: numpoly.derivative(p, *([d] * kk)), exp,
                                  ["repeated", f"order={kk}"], {"k": "repeated"})
                        step = p
                        for _ in range(min(kk, 3)):
                            step = numpoly.derivative(step, v)
                        exp3 = m
                        for _ in range(min(kk, 3)):
                            exp3 = exp3.diff(v)
                        judge(R, f"derivative applied {min(kk, 3)} times wrt {v} of degree {e} {dt}", lambda: step, exp3, ["repeated"], {"k": "repeated"})
        return
    if k == "u0":
        t = space.U0()[case["i"]]
        R.state(("u0", case["i"]))
        # all 16 configurations for every third polynomial, a rotating third of them for the others
        cfgs = CONFIGS if case["i"] % 3 == 0 else CONFIGS[case["i"] % 3::3]
        check_poly(R, space.scalar_spec(("q0", "q1"), t), str(t), cfgs, seqlen=2)
        R.sample({"polynomial": str(t), "configs": len(cfgs)})
    elif k == "u3":
        t = U3()[case["i"]]
        R.state(("u3", case["i"]))
        check_poly(R, space.scalar_spec(("q0", "q2", "q10"), t), str(t), CONFIGS, seqlen=2 if case["i"] % 3 else 3)
    elif k == "arrays":
        shape, var = tuple(case["s"]), case["v"]
        R.state(("arr", shape, var))
        check_poly(R, C09.tagged(shape, variant=var), f"tagged{shape}/{var}", CONFIGS, seqlen=2)
        sp3 = C09.tagged(shape, 5, ("q1", "q2", "q10"), variant=var)
        check_poly(R, sp3, f"tagged3{shape}/{var}", CONFIGS[::5], seqlen=1)
    elif k == "unsorted_names":
        for ni, names in enumerate((("q10", "q2"), ("q1", "q0"), ("q2", "q0", "q1"))):
            kk = len(names)
            for ti, t in enumerate(([((1,) + (2,) * (kk - 1), 1), ((0,) * (kk - 1) + (1,), 3)], [((2,) + (0,) * (kk - 1), 1), ((1,) * kk, -2), ((0,) * kk, 5)])):
                if 2 * ni + ti != case["i"]:
                    continue
                R.state(("unsorted", names, str(t)))
                check_poly(R, spec(names, (), t), f"{names} {t}", CONFIGS, seqlen=2)
                check_poly(R, spec(names, (2,), [(e, [c, -c]) for e, c in t]), f"{names} {t} array", CONFIGS[::3], seqlen=2)
    elif k == "wide":
        for i, (lab, sp) in enumerate(space.wide_specs() + space.wide_array_specs()):
            if len(sp["n"]) > 20:
                continue
            R.state(("wide", i))
            check_poly(R, sp, lab, [CONFIGS[0], CONFIGS[11]], seqlen=1)
    elif k == "twins":
        for i, sp in enumerate(space.twin_sequence()):
            R.state(("twins", i))
            check_poly(R, sp, f"twin {i} {sp['n']} {sp['t']}", [CONFIGS[0], CONFIGS[9]], seqlen=1)
    elif k == "dtypes":
        # every numeric dtype, with coefficients near the top of its range (second derivatives still fit: factors up to 6)
        big = {"?": [True, True], "i1": [20, -21], "i2": [5000, -5001], "i4": [35 * 10 ** 7 + 1, -35 * 10 ** 7 - 3], "i8": [2 ** 60 + 1, -2 ** 60 - 3],
               "u1": [40, 41], "u2": [10000, 10001], "u4": [700000001, 700000003], "u8": [2 ** 53 + 1, 2 ** 61 + 1],
               "f2": [0.5, -1.5], "f4": [0.25, 2.0], "f8": [0.5, -1.5], "c8": [1j, 2 - 1j], "c16": [1j, 2 - 1j]}
        for dt, coefs in big.items():
            sp = spec(("q0", "q1"), (), [((3, 1), coefs[0]), ((0, 2), coefs[1])], dt)
            R.state(("dtype", dt))
            check_poly(R, sp, f"dtype {dt}", CONFIGS[::3], seqlen=2 if dt in ("?", "f8", "c16", "i4", "f4", "u1") else 1)
            spa = spec(("q0", "q1"), (2,), [((3, 1), [coefs[0], coefs[1]]), ((0, 2), [coefs[1], 0]), ((0, 0), [coefs[0], coefs[0]])], dt)
            check_poly(R, spa, f"dtype {dt} array", CONFIGS[::5], seqlen=1)
        # infinite coefficients are coefficients: in terms that contain the variable and in terms that do not
        for i, sp in enumerate(space.nonfinite_specs()):
            R.state(("nonfinite", i))
            check_poly(R, sp, f"nonfinite {i}", CONFIGS[::5], seqlen=1)
    elif k == "product":
        pool = space.U0()[::13]
        names = ("q0", "q1")
        for ta, tb in itertools.product(pool, repeat=2):
            spa, spb = space.scalar_spec(names, ta), space.scalar_spec(names, tb)
            a, b = build_checked(spa), build_checked(spb)
            ma, mb = model_of(spa), model_of(spb)
            for nm in names:
                judge(R, f"derivative(a*b) {ta} {tb} wrt {nm}", lambda: numpoly.derivative(a * b, nm), (ma * mb).diff(nm), ["product_rule"])
                judge(R, f"a'*b+a*b' {ta} {tb} wrt {nm}", lambda: numpoly.derivative(a, nm) * b + a * numpoly.derivative(b, nm),
                      (ma * mb).diff(nm), ["product_rule"])
                judge(R, f"derivative(a+2b) {ta} {tb} wrt {nm}", lambda: numpoly.derivative(a + 2 * b, nm), (ma + mb * 2).diff(nm), ["linearity"])
            R.state(("prod", str(ta), str(tb)))
    elif k == "one":
        sp = case["sp"]
        m = model_of(sp)
        names = tuple(sp["n"])
        cfg = tuple(case["cfg"])
        with numpoly.global_options(**cfg_kw(cfg)):
            p = build_checked(sp)
            if case.get("fn") == "gradient":
                judge(R, "gradient", lambda: numpoly.gradient(p), stack_models([m.diff(nm) for nm in names], m.shape), [])
            elif case.get("fn") == "hessian":
                h = stack_models([stack_models([m.diff(a).diff(b) for b in names], m.shape) for a in names], (len(names),) + m.shape)
                judge(R, "hessian", lambda: numpoly.hessian(p), h, [])
            else:
                exp = m
                for nm in case["seq"]:
                    exp = exp.diff(nm)
                args = [designations(p, nm)[j][1] for nm, j in zip(case["seq"], case["combo"])]
                judge(R, "derivative", lambda: numpoly.derivative(p, *args), exp, [])
    else:
        raise KeyError(k)
