"""C02  Evaluation and substitution compute the polynomial's value (E1)."""
import itertools

import numpy

from .. import tree  # noqa: F401
import numpoly

from ..alpha import alpha, build_checked, model_of, spec, wellformed
from ..model import V, exact_array, exact_scalar
from .. import space
from . import C01, C09

ID = "C02"
CASE_BUDGET_S = 900

META = {
    "rule": "all 154 polynomials of U0 (0-d) x a value band of 26 argument values per indeterminate (Python int incl. negative "
            "and >2**16, bool, float, complex, numpy scalars of all 13 dtypes) in 3 diagonals, all value PAIRS for a 12-polynomial "
            "subset (each pair also by keyword in both orders and staged); every call form (positional / keyword / None placeholders / missing trailing arguments) x 3 value kinds; three names with every keyword order x mixed argument types; "
            "array arguments of shapes () (2) (3) (2,1,3) broadcasting among themselves x polynomial arrays of 4 shapes x 3 "
            "representations; polynomial-valued arguments (swap q0<->q1, q1+1, constants, arrays); staged evaluation in both "
            "orders; unknown and doubly supplied names. Oracle: exact substitution in the model. distinct = (polynomial, "
            "assignment).",
    "bounds": {"U0": 154, "values": 26},
    "assumptions": ["cases whose exact value does not fit int64 / float53 are skipped and counted (not representable)"],
}

PY_VALUES = [-2, -1, 0, 1, 3, 65537, 2 ** 33, True, False, -1.0, 0.5, 1j, -1 + 2j]
NP_VALUES = [("?", True), ("i1", -3), ("i2", -3), ("i4", -3), ("i8", -3), ("u1", 200), ("u2", 200), ("u4", 200), ("u8", 7),
             ("f2", 0.5), ("f4", -1.5), ("f8", -1.0), ("c8", 1j), ("c16", -1 + 2j)]


def values():
    out = [("py", v) for v in PY_VALUES]
    out += [("np:" + dt, numpy.dtype(dt).type(v)) for dt, v in NP_VALUES]
    return out


def fits(v):
    for c in v.t.values():
        for x in c.ravel().tolist():
            if isinstance(x, complex):
                if abs(x) > 2 ** 52:
                    return False
            elif abs(x) > 2 ** 62:
                return False
    return True


def terms_fit(m, assign):
    """every single term value (and hence every partial sum in any order) is representable"""
    for mono, c in m.t.items():
        if not fits(V({mono: c}, m.shape).subs(assign)):
            return False
    return True


def stage(x, *a, **k):
    """second stage of a staged evaluation: a partial result without indeterminates left is a plain array already"""
    return x(*a, **k) if isinstance(x, numpoly.ndpoly) else x


def judge_numeric(R, label, f, expected, poly_shape, tags, sub=None):
    """fully numeric evaluation: plain array of the model's value"""
    R.tr()
    if not fits(expected):
        R.stat("not_representable")
        return
    try:
        got = f()
    except Exception as err:  # noqa: BLE001
        R.fail("call", "exception", f"{label}: {type(err).__name__}: {err}", tags=tags, sub=sub)
        return
    probs = []
    if isinstance(got, numpoly.ndpoly):
        probs.append("result is an ndpoly although every indeterminate got a number")
    else:
        arr = numpy.asarray(got)
        if tuple(arr.shape) != expected.shape:
            probs.append(f"shape {tuple(arr.shape)} != {expected.shape}")
        else:
            want = expected.t.get(frozenset())
            if want is None:
                want = numpy.zeros(expected.shape, dtype=object)
            if not expected.isconstant():
                raise RuntimeError("model value not constant")
            w = numpy.array([complex(x) for x in want.ravel().tolist()]).reshape(expected.shape)
            g = arr.astype(complex)
            if not numpy.array_equal(g, w):
                probs.append(f"values {arr.tolist()} != {[exact_scalar(x) for x in want.ravel().tolist()]}")
    if probs:
        R.fail("call", "wrong-value", f"{label}: " + "; ".join(probs)[:400], tags=tags, sub=sub)
    else:
        R.outcome((label, expected.key()))


def judge_poly(R, label, f, expected, tags, sub=None):
    """partial / polynomial-valued evaluation: an ndpoly equal to the model substitution"""
    R.tr()
    if not fits(expected):
        R.stat("not_representable")
        return
    try:
        got = f()
    except Exception as err:  # noqa: BLE001
        R.fail("call", "exception", f"{label}: {type(err).__name__}: {err}", tags=tags, sub=sub)
        return
    if isinstance(got, numpoly.ndpoly):
        w = wellformed(got)
        if w:
            R.fail("call", "wrong-value", f"{label}: ill-formed {w}", tags=tags, sub=sub)
            return
        a = alpha(got)
    else:
        if not expected.isconstant():
            R.fail("call", "wrong-value", f"{label}: plain {type(got).__name__} returned but indeterminates remain: expected {expected!r}", tags=tags, sub=sub)
            return
        a = V.const(numpy.asarray(got))
    if a.shape != expected.shape:
        R.fail("call", "wrong-value", f"{label}: shape {a.shape} != {expected.shape}", tags=tags, sub=sub)
    elif a != expected:
        R.fail("call", "wrong-value", f"{label}: {a!r} != {expected!r}"[:400], tags=tags, sub=sub)
    else:
        R.outcome((label, expected.key()))


def vtag(kind, v):
    t = [f"arg={kind}"]
    if kind == "py" and isinstance(v, int) and not isinstance(v, bool):
        if v < 0:
            t.append("negative_python_int")
        if abs(v) > 2 ** 16:
            t.append("large_python_int")
    return t


def cases(tier, seed):
    from .. import produced
    return _cases(tier, seed) + produced.case_list()


def _cases(tier, seed):
    out = []
    n = len(space.U0())
    for i in range(n):
        out.append({"k": "band", "i": i})
    for i in range(0, n, 13 if tier == "quick" else 1):
        out.append({"k": "pairs", "i": i})
    for i in range(0, n, 8):
        out.append({"k": "forms", "i": i})
    for shape in [(), (2,), (2, 2), (1, 3)]:
        for var in ("canon", "T", "zeroterm", "rev"):
            if var == "T" and len(shape) < 2:
                continue
            out.append({"k": "arrays", "s": list(shape), "v": var})
    for i in range(0, n, 5):
        out.append({"k": "polyargs", "i": i})
    out.append({"k": "polyargs", "i": -1})
    out.append({"k": "three"})
    out.append({"k": "digits"})
    out.append({"k": "cancel"})
    out.append({"k": "twins"})
    out.append({"k": "magnitudes"})
    out.sort(key=lambda c: {"polyargs": 0, "pairs": 1, "arrays": 2}.get(c["k"], 3))
    return out


def run_case(case, R):
    if case.get("k") == "produced":
        from .. import produced
        return produced.run(R, ID, case["i0"], case["i1"])
    k = case["k"]
    names = ("q0", "q1")
    vals = values()
    if k in ("band", "pairs"):
        u = space.U0()
        sp = space.scalar_spec(names, u[case["i"]])
        p, m = build_checked(sp), model_of(sp)
        R.state(("u0", case["i"]))
        nv = len(vals)
        if k == "band":
            pairs = [(a, (a + d) % nv) for a in range(nv) for d in (0, 1, 5)]
        else:
            pairs = list(itertools.product(range(nv), repeat=2))
        for ia, ib in pairs:
            (ka, va), (kb, vb) = vals[ia], vals[ib]
            exp = m.subs({"q0": V.const(va), "q1": V.const(vb)})
            if not terms_fit(m, {"q0": V.const(va), "q1": V.const(vb)}):
                R.stat("not_representable")
                continue
            judge_numeric(R, f"{u[case['i']]}({va!r}:{ka}, {vb!r}:{kb})", lambda: p(va, vb), exp, (), vtag(ka, va) + vtag(kb, vb),
                          {"k": "one", "i": case["i"], "ia": ia, "ib": ib})
            # the same assignment by keyword, in the order of the names and against it
            judge_numeric(R, f"{u[case['i']]}(q1={vb!r}:{kb}, q0={va!r}:{ka})", lambda: p(q1=vb, q0=va), exp, (), vtag(ka, va) + vtag(kb, vb) + ["form=keywords-reversed"],
                          {"k": "one", "i": case["i"], "ia": ia, "ib": ib})
            if k == "pairs":
                judge_numeric(R, f"{u[case['i']]}(q0={va!r}:{ka}, q1={vb!r}:{kb})", lambda: p(q0=va, q1=vb), exp, (), vtag(ka, va) + vtag(kb, vb) + ["form=keywords"],
                              {"k": "one", "i": case["i"], "ia": ia, "ib": ib})
                judge_numeric(R, f"{u[case['i']]}(None, {vb!r}:{kb})(q0={va!r}:{ka})", lambda: stage(p(None, vb), q0=va), exp, (), vtag(ka, va) + vtag(kb, vb) + ["form=staged"],
                              {"k": "one", "i": case["i"], "ia": ia, "ib": ib})
        R.sample({"polynomial": str(p), "values": [repr(v) for _, v in vals[:6]] + ["..."]})
    elif k == "one":
        u = space.U0()
        sp = space.scalar_spec(names, u[case["i"]])
        p, m = build_checked(sp), model_of(sp)
        (ka, va), (kb, vb) = vals[case["ia"]], vals[case["ib"]]
        exp1 = m.subs({"q0": V.const(va), "q1": V.const(vb)})
        judge_numeric(R, "one", lambda: p(va, vb), exp1, (), vtag(ka, va) + vtag(kb, vb))
        judge_numeric(R, "one keywords reversed", lambda: p(q1=vb, q0=va), exp1, (), vtag(ka, va) + vtag(kb, vb) + ["form=keywords-reversed"])
        judge_numeric(R, "one keywords", lambda: p(q0=va, q1=vb), exp1, (), vtag(ka, va) + vtag(kb, vb) + ["form=keywords"])
        judge_numeric(R, "one staged", lambda: stage(p(None, vb), q0=va), exp1, (), vtag(ka, va) + vtag(kb, vb) + ["form=staged"])
    elif k == "forms":
        u = space.U0()
        sp = space.scalar_spec(names, u[case["i"]])
        p, m = build_checked(sp), model_of(sp)
        R.state(("forms", case["i"]))
        for (a, b), cfg in itertools.product(((-1, 3), (0.5, numpy.int64(-2)), (numpy.float32(2.0), 1j), (True, 65537)),
                                             ({}, {"retain_names": False}, {"retain_coefficients": True}, {"retain_names": False, "retain_coefficients": True})):
          if cfg and b == 65537:
              # zero terms kept by retain_coefficients=True have higher degree than the polynomial: 0 * 65537**4 does not fit int64
              continue
          with numpoly.global_options(**cfg):
            A, B = V.const(a), V.const(b)
            full = m.subs({"q0": A, "q1": B})
            tg = vtag("py", a) + vtag("py", b) + [f"{k_}={v_}" for k_, v_ in cfg.items()]
            # the function form takes the positional arguments in any sequence type (one entry per indeterminate)
            for lab, f in (("numpoly.call(p,[a,b])", lambda: numpoly.call(p, [a, b])), ("numpoly.call(p,(a,b))", lambda: numpoly.call(p, (a, b))),
                           ("numpoly.call(p,array([a,b]))", lambda: numpoly.call(p, numpy.array([a, b]))),
                           ("numpoly.call(p,array([[a],[b]]))", lambda: numpoly.call(p, numpy.array([[a], [b]]))),
                           ("numpoly.call(p,iter)", lambda: numpoly.call(p, tuple(x for x in (a, b))))):
                if "array" in lab:
                    arr_ = numpy.array([a, b])
                    full_ = m.subs({"q0": V.const(arr_[0]), "q1": V.const(arr_[1])})
                    if "[[a]" in lab:
                        full_ = full_.map(lambda c: c.reshape(c.shape + (1,)))
                    if not terms_fit(m, {"q0": V.const(arr_[0]), "q1": V.const(arr_[1])}):
                        continue
                    judge_numeric(R, f"{u[case['i']]}: {lab} a={a!r} b={b!r} {cfg}", f, full_, (), tg + ["form=call-function-container"])
                else:
                    judge_numeric(R, f"{u[case['i']]}: {lab} a={a!r} b={b!r} {cfg}", f, full, (), tg + ["form=call-function-container"])
            for lab, f in (("p(a,b)", lambda: p(a, b)), ("p(a,q1=b)", lambda: p(a, q1=b)), ("p(q0=a,q1=b)", lambda: p(q0=a, q1=b)),
                           ("p(q1=b,q0=a)", lambda: p(q1=b, q0=a)), ("p(None,b)(a)", lambda: stage(p(None, b), a)),
                           ("p(a)(q1=b)", lambda: stage(p(a), q1=b)), ("p(q1=b)(q0=a)", lambda: stage(p(q1=b), q0=a)),
                           ("p(a,None)(None,b)", lambda: stage(p(a, None), None, b)), ("numpoly.call", lambda: numpoly.call(p, (a,), {"q1": b}))):
                judge_numeric(R, f"{u[case['i']]}: {lab} a={a!r} b={b!r}", f, full, (), tg + ["form=" + lab])
            kw = {"q1": b}
            judge_numeric(R, f"{u[case['i']]}: numpoly.call(p,(a,),kw) a={a!r} b={b!r}", lambda: numpoly.call(p, (a,), kw), full, (), tg + ["form=call-function"])
            judge_poly(R, f"{u[case['i']]}: numpoly.call(p,(),kw) with the same dict", lambda: numpoly.call(p, (), kw), m.subs({"q1": B}), tg + ["form=call-function", "partial"])
            judge_numeric(R, f"{u[case['i']]}: numpoly.call(p,(a,),kw) with the same dict again", lambda: numpoly.call(p, (a,), kw), full, (), tg + ["form=call-function"])
            for lab, f, e in (("p(a)", lambda: p(a), m.subs({"q0": A})), ("p(None,b)", lambda: p(None, b), m.subs({"q1": B})),
                              ("p(q1=b)", lambda: p(q1=b), m.subs({"q1": B})), ("p(a,None)", lambda: p(a, None), m.subs({"q0": A})),
                              ("p()", lambda: p(), m), ("p(None,None)", lambda: p(None, None), m)):
                judge_poly(R, f"{u[case['i']]}: {lab} a={a!r} b={b!r}", f, e, tg + ["form=" + lab, "partial"])
        # error cases
        for lab, f in (("unknown keyword", lambda: p(q7=1)), ("unknown keyword mixed", lambda: p(1, q9=2)),
                       ("doubly supplied", lambda: p(1, q0=2)), ("doubly supplied 2", lambda: p(1, 2, q1=3))):
            R.tr()
            try:
                r = f()
            except TypeError:
                R.outcome((lab, case["i"]))
            except Exception as err:  # noqa: BLE001
                R.fail("call", "wrong-exception", f"{u[case['i']]}: {lab} raised {type(err).__name__}: {err}, not TypeError", tags=["errors"])
            else:
                R.fail("call", "no-exception", f"{u[case['i']]}: {lab} returned {r!r}", tags=["errors"])
    elif k == "arrays":
        shape, var = tuple(case["s"]), case["v"]
        sp = C09.tagged(shape, variant=var)
        p, m = build_checked(sp), model_of(sp)
        R.state(("arrays", shape, var))
        args = {
            "()": numpy.array(2), "(2)": numpy.array([1, -2]), "(3)": numpy.array([0.5, -1.0, 3.0]),
            "(2,1,3)": numpy.arange(6).reshape(2, 1, 3) - 2, "(1,)": numpy.array([3]), "list": [1, 2, 3], "(3)c": numpy.array([1j, 1, 0]),
            "(2)u1": numpy.array([200, 3], dtype="u1"), "(3)i1": numpy.array([-3, 2, 1], dtype="i1"),
        }
        for (la, a), (lb, b) in itertools.product(args.items(), repeat=2):
            try:
                numpy.broadcast_shapes(numpy.shape(a), numpy.shape(b))
            except ValueError:
                continue
            exp = m.subs({"q0": V.const(numpy.asarray(a)), "q1": V.const(numpy.asarray(b))})
            tg = [f"poly_shape={shape}", f"variant={var}", "array_args"]
            judge_numeric(R, f"tagged{shape}/{var}({la}, {lb})", lambda: p(a, b), exp, shape, tg)
            judge_numeric(R, f"tagged{shape}/{var}(q1={lb}, q0={la})", lambda: p(q1=b, q0=a), exp, shape, tg)
        for la, a in args.items():
            judge_poly(R, f"tagged{shape}/{var}({la}) partial", lambda: p(a), m.subs({"q0": V.const(numpy.asarray(a))}),
                       ["array_args", "partial"])
            judge_poly(R, f"tagged{shape}/{var}(q1={la}) partial", lambda: p(q1=a), m.subs({"q1": V.const(numpy.asarray(a))}),
                       ["array_args", "partial"])
            # staged == at once
            judge_numeric(R, f"tagged{shape}/{var}({la})(q1=2) staged", lambda: stage(p(a), q1=2),
                          m.subs({"q0": V.const(numpy.asarray(a))}).subs({"q1": V.const(2)}), shape, ["array_args", "staged"])
    elif k == "polyargs":
        q0, q1, q2 = V.var("q0"), V.var("q1"), V.var("q2")
        B = build_checked
        s = space.scalar_spec
        pargs = {
            "q1": (B(s(("q1",), [((1,), 1)])), q1), "q0": (B(s(("q0",), [((1,), 1)])), q0),
            "q1+1": (B(s(("q1",), [((1,), 1), ((0,), 1)])), q1 + 1), "2*q0*q1": (B(s(("q0", "q1"), [((1, 1), 2)])), q0 * q1 * 2),
            "const 3": (B(s(("q0",), [((0,), 3)])), V.const(3)), "q2**2": (B(s(("q2",), [((2,), 1)])), q2 * q2),
            "array [q0, q1+2]": (B(space.array_spec(("q0", "q1"), (2,), [[((1, 0), 1)], [((0, 1), 1), ((0, 0), 2)]])),
                                 model_of(space.array_spec(("q0", "q1"), (2,), [[((1, 0), 1)], [((0, 1), 1), ((0, 0), 2)]]))),
            "number 2": (2, V.const(2)), "0.5": (0.5, V.const(0.5)),
        }
        u = space.U0()
        for i in ([case["i"]] if case["i"] >= 0 else []):
            sp = space.scalar_spec(names, u[i])
            p, m = build_checked(sp), model_of(sp)
            R.state(("polyargs", i))
            for (la, (a, ma)), (lb, (b, mb)) in itertools.product(pargs.items(), repeat=2):
                exp = m.subs({"q0": ma, "q1": mb})
                judge_poly(R, f"{u[i]}({la}, {lb})", lambda: p(a, b), exp, ["polyargs"])
            for la, (a, ma) in pargs.items():
                judge_poly(R, f"{u[i]}(q1={la})", lambda: p(q1=a), m.subs({"q1": ma}), ["polyargs", "partial"])
        # arrays of polynomials evaluated at polynomials
        for shape in ([(2,), (2, 2)] if case["i"] < 0 else []):
            sp = C09.tagged(shape)
            p, m = build_checked(sp), model_of(sp)
            for (la, (a, ma)), (lb, (b, mb)) in itertools.product(list(pargs.items())[:7], repeat=2):
                try:
                    exp = m.subs({"q0": ma, "q1": mb})
                except ValueError:
                    continue
                judge_poly(R, f"tagged{shape}({la}, {lb})", lambda: p(a, b), exp, ["polyargs", "array_poly"])
    elif k == "magnitudes":
        # partial / staged / polynomial-valued evaluation of polynomials with very small and very large coefficients:
        # the indeterminates that were not supplied must survive (values compared with a relative tolerance)
        for i, sp in enumerate(space.magnitude_specs()):
            p, m = build_checked(sp), model_of(sp)
            R.state(("magnitudes", i))
            for lab, f, assign in (("p(q0=2)", lambda: p(q0=2), {"q0": V.const(2)}), ("p(None, 3)", lambda: p(None, 3), {"q1": V.const(3)}),
                                   ("p(q1, q0)", lambda: p(numpoly.symbols("q1"), numpoly.symbols("q0")), {"q0": V.var("q1"), "q1": V.var("q0")}),
                                   ("p(q0=q1+1)", lambda: p(q0=numpoly.symbols("q1") + 1), {"q0": V.var("q1") + 1}),
                                   ("p(4)", lambda: p(4), {"q0": V.const(4)})):
                R.tr()
                exp = m.subs(assign)
                try:
                    got = f()
                except Exception as err:  # noqa: BLE001
                    R.fail("call", "exception", f"magnitudes {sp['t']} {lab}: {type(err).__name__}: {err}", tags=["magnitudes"])
                    continue
                if isinstance(got, numpoly.ndpoly):
                    a = alpha(got)
                elif exp.isconstant():
                    a = V.const(numpy.asarray(got))
                else:
                    R.fail("call", "wrong-value", f"magnitudes {sp['t']} {lab}: plain {type(got).__name__} {got!r} returned but indeterminates remain: {exp!r}", tags=["magnitudes"])
                    continue
                if a.shape != exp.shape or set(a.t) != set(exp.t) or not a.close(exp, rtol=1e-12, atol=0.0):
                    R.fail("call", "wrong-value", f"magnitudes {sp['t']} {lab}: {a!r} != {exp!r}", tags=["magnitudes"])
                else:
                    R.outcome(("magnitudes", i, lab))
    elif k == "twins":
        for i, sp in enumerate(space.twin_sequence()):
            p, m = build_checked(sp), model_of(sp)
            R.state(("twins", i))
            vals = [2, -1, 3, 1][:len(sp["n"])]
            exp = m.subs({n: V.const(v) for n, v in zip(sp["n"], vals)})
            judge_numeric(R, f"twin {i} {sp['n']} {sp['t']}{tuple(vals)}", lambda: p(*vals), exp, tuple(sp["s"]), ["twins"])
            judge_poly(R, f"twin {i} partial", lambda: p(**{sp["n"][-1]: 2}), m.subs({sp["n"][-1]: V.const(2)}), ["twins", "partial"])
    elif k == "digits":
        # names of which one is the other followed by more digits (q1 / q11, q2 / q21, q1 / q10 / q11) with exponents of one and two
        # digits: every text built from a name and a number is ambiguous for them
        for names in (("q1", "q11"), ("q2", "q21"), ("q1", "q10", "q11"), ("q1", "q12"), ("q3", "q30", "q31")):
            kk = len(names)
            for e1, e2 in itertools.product((1, 2, 10, 11, 12), (0, 1, 2, 10)):
                t = [(tuple([e1] + [0] * (kk - 1)), 1), (tuple([0] * (kk - 1) + [e2 or 1]), 1), (tuple([e2] + [0] * (kk - 2) + [1]), -2)]
                t = list({e_: c_ for e_, c_ in t}.items())
                sp = space.scalar_spec(names, t)
                p, m = build_checked(sp), model_of(sp)
                vals = [2, 3, -1][:kk]
                assign = {n_: V.const(v_) for n_, v_ in zip(names, vals)}
                exp = m.subs(assign)
                R.state(("digits", names, e1, e2))
                judge_numeric(R, f"{names} {t} at {vals}", lambda: p(*vals), exp, (), ["digits"])
                judge_numeric(R, f"{names} {t} at {vals} by keyword", lambda: p(**dict(zip(names, vals))), exp, (), ["digits"])
                judge_numeric(R, f"{names} {t} at {vals} by keyword reversed", lambda: p(**dict(reversed(list(zip(names, vals))))), exp, (), ["digits"])
                judge_poly(R, f"{names} {t} partial {names[0]}=2", lambda: p(**{names[0]: 2}), m.subs({names[0]: V.const(2)}), ["digits", "partial"])
                judge_poly(R, f"{names} {t} partial {names[-1]}=3", lambda: p(**{names[-1]: 3}), m.subs({names[-1]: V.const(3)}), ["digits", "partial"])
    elif k == "cancel":
        # arrays whose coefficients of some monomial cancel ACROSS the elements (sum to zero) or are zero in some elements only:
        # what is left after a partial evaluation is still a polynomial in every element that has the term
        names = ("q0", "q1")
        fam = [spec(names, (2,), [((1, 0), [1, 1]), ((0, 1), [1, -1])]), spec(names, (3,), [((1, 1), [2, -1, -1]), ((0, 1), [0, 3, -3]), ((0, 0), [1, 1, 1])]),
               spec(names, (2, 2), [((0, 2), [1, -1, 1, -1]), ((1, 0), [0, 0, 2, -2])]), spec(names, (2,), [((0, 1), [0.5, -0.5]), ((2, 0), [1.0, 1.0])], "f8"),
               spec(names, (4,), [((0, 1), [1, -1, 2, -2]), ((1, 0), [3, 0, -3, 0])])]
        for sp in fam:
            p, m = build_checked(sp), model_of(sp)
            R.state(("cancel", str(sp["t"])))
            for a in (2, 0, -1):
                judge_poly(R, f"{sp['t']}(q0={a})", lambda: p(q0=a), m.subs({"q0": V.const(a)}), ["cancel", "partial"])
                judge_poly(R, f"{sp['t']}({a})", lambda: p(a), m.subs({"q0": V.const(a)}), ["cancel", "partial"])
                judge_poly(R, f"{sp['t']}(None, {a}) then the rest", lambda: p(None, a), m.subs({"q1": V.const(a)}), ["cancel", "partial"])
                full = m.subs({"q0": V.const(a), "q1": V.const(3)})
                judge_numeric(R, f"{sp['t']}({a}, 3)", lambda: p(a, 3), full, tuple(sp["s"]), ["cancel"])
                judge_numeric(R, f"{sp['t']}(q0={a})(q1=3)", lambda: stage(p(q0=a), q1=3), full, tuple(sp["s"]), ["cancel", "staged"])
    elif k == "three":
        names3 = ("q0", "q2", "q10")
        pool = [[((1, 0, 0), 1), ((0, 1, 1), -2)], [((0, 0, 2), 1), ((0, 0, 0), 3)], [((1, 1, 1), 1)], [((2, 0, 0), 1), ((0, 2, 0), -1), ((0, 0, 1), 2)]]
        for t in pool:
            sp = space.scalar_spec(names3, t)
            p, m = build_checked(sp), model_of(sp)
            for a, b, c in itertools.product([-1, 2, 0.5, numpy.int16(-3)], [3, numpy.int8(-2), -2], [1, -1.5, 1j, numpy.uint8(5)]):
                exp = m.subs({"q0": V.const(a), "q2": V.const(b), "q10": V.const(c)})
                judge_numeric(R, f"{t}({a},{b},{c})", lambda: p(a, b, c), exp, (), ["three"])
                for order in itertools.permutations((("q0", a), ("q2", b), ("q10", c))):
                    kw = dict(order)
                    judge_numeric(R, f"{t}({', '.join(f'{n}={v!r}' for n, v in order)})", lambda: p(**kw), exp, (), ["three", "form=keywords-permuted"])
                judge_numeric(R, f"{t}(q10={c})(q0={a})(q2={b})", lambda: stage(stage(p(q10=c), q0=a), q2=b), exp, (), ["three", "staged"])
                judge_poly(R, f"{t}(None,{b})", lambda: p(None, b), m.subs({"q2": V.const(b)}), ["three", "partial"])
            R.state(("three", str(t)))
    else:
        raise KeyError(k)
