"""C11  On constant polynomials every mirrored function behaves exactly like numpy (registry sweep x E1)."""
import itertools

import numpy

from .. import tree  # noqa: F401
import numpoly
from numpoly.baseclass import FeatureNotSupported

from ..alpha import alpha, build_checked, spec, wellformed, raw_view
from .. import space
from . import C08, C09

ID = "C11"
CASE_BUDGET_S = 900

POOL = [3, 1, 2, 0, 5, 4, -1, 1, 1]
SHAPES = [(), (1,), (3,), (4,), (2, 3), (3, 1), (2, 2), (2, 2, 3), (1, 3, 2)]

META = {
    "rule": "every numpy callable in numpoly's registries x constant polynomial arrays of 9 shapes (0-3 dims) filled from the value "
            "pool {3,1,2,0,5,4,-1,1,1} in 3 rotations (repeats, negatives, zeros, non-monotone per-axis extremes), int and float, x "
            "every axis / axis tuple / keepdims / decimals / ... argument; the C08 argument catalogue re-run on constants; numeric "
            "division functions on constants (negative, float, zero divisors excluded) and with non-constant divisors "
            "(FeatureNotSupported). Oracle: the numpy function on the underlying plain arrays: equal shape and values, equal "
            "dtype kind for boolean / index results, first occurrence for argmax/argmin. distinct = (function, arguments, array).",
    "bounds": {"shapes": len(SHAPES), "rotations": 3, "dtypes": ["i8", "f8", "f8 with magnitudes 5e-324..1e300", "u1", "i1", "f4", "?"]},
    "assumptions": ["results are compared through tonumpy()/asarray; integer vs float width of numeric results is not demanded"],
}


def const_poly(arr, name="q0", variant="canon"):
    arr = numpy.asarray(arr)
    dt = arr.dtype.str.lstrip("<|=") if arr.dtype.kind != "b" else "?"
    return build_checked(spec((name,), arr.shape, [((0,), arr.ravel().tolist())], dt, variant))


def filled(shape, rot, kind="i"):
    n = int(numpy.prod(shape)) if shape else 1
    vals = [POOL[(rot + i * (2 if rot == 2 else 1)) % len(POOL)] for i in range(n)]
    a = numpy.array(vals).reshape(shape)
    if kind == "f":
        return a.astype(float) * (0.5 if rot == 1 else 1.0)
    if kind == "mag":
        mags = [3e-15, 1e-15, 2e-15, 0.0, 1.0 + 1e-13, 1.0, -1e300, 1e300, 5e-324, -3e-15, 1.0 - 1e-13]
        return numpy.array([mags[(rot + i * (2 if rot == 2 else 1)) % len(mags)] for i in range(n)]).reshape(shape)
    if kind == "nf":
        # no nan among the inputs: numpoly's extremes follow its polynomial order, numpy's propagate nan (no order on nan, cf. C07)
        nf = [float("inf"), 2.0, 0.0, -float("inf"), 1e200, -1.5, 0.0, 1.0, float("inf"), 0.0, -1e200]
        return numpy.array([nf[(rot * 2 + i * (3 if rot == 2 else 1)) % len(nf)] for i in range(n)]).reshape(shape)
    if kind == "u1":
        return (numpy.abs(a) * 50).astype("u1")          # 0..250: sums and differences leave uint8
    if kind == "i1":
        return (a * 25).astype("i1")                     # -25..125
    if kind == "f4":
        return (a * 0.25).astype("f4")
    if kind == "?":
        return (a % 2).astype(bool)
    return a


def to_numeric(x):
    """numpoly result -> plain numpy value (None if it is a non-constant polynomial)"""
    if isinstance(x, numpoly.ndpoly):
        if wellformed(x):
            return ("illformed", wellformed(x))
        if not alpha(x).isconstant():
            return ("nonconstant", str(x))
        a = alpha(x)
        c = a.t.get(frozenset())
        out = numpy.zeros(x.shape, dtype=x.dtype)
        raw = raw_view(x)
        for key, e in zip(x.keys, x.exponents.tolist()):
            if not any(e):
                out = numpy.array(raw[key])
        return out
    if isinstance(x, (tuple, list)):
        return type(x)(to_numeric(y) for y in x)
    return x


def agree(got, want, strict_kind=False, tol=False):
    """complaint or None"""
    if isinstance(want, (tuple, list)):
        if not isinstance(got, (tuple, list)) or len(got) != len(want):
            return f"sequence of {len(want)} expected, got {type(got).__name__}"
        for i, (g, w) in enumerate(zip(got, want)):
            r = agree(g, w, strict_kind, tol)
            if r:
                return f"[{i}] {r}"
        return None
    if isinstance(got, tuple) and got and got[0] in ("illformed", "nonconstant"):
        return f"{got[0]}: {got[1]}"
    if isinstance(want, str):
        return None if got == want else f"{got!r} != {want!r}"
    if isinstance(want, (type, numpy.dtype)):
        return None if numpy.dtype(got) == numpy.dtype(want) else f"{got} != {want}"
    g, w = numpy.asarray(got), numpy.asarray(want)
    if g.shape != w.shape:
        return f"shape {g.shape} != numpy's {w.shape}"
    if w.dtype.kind in "bi" and (strict_kind or w.dtype.kind == "b") and g.dtype.kind != w.dtype.kind and not (w.dtype.kind == "i" and g.dtype.kind == "u"):
        if w.dtype.kind == "b" or strict_kind:
            return f"dtype kind {g.dtype} != numpy's {w.dtype}"
    if w.dtype == object or g.dtype == object:
        return None if g.tolist() == w.tolist() else f"{g.tolist()} != {w.tolist()}"
    # exact: on constants numpoly applies the very numpy function to the coefficient array, so the bits must agree
    if tol == "ulp":
        # products folded in a different order than numpy's pairwise / multi-axis reduction differ in the last bits
        gc, wc = g.astype(complex), w.astype(complex)
        if not numpy.all(numpy.abs(gc - wc) <= 1e-13 * numpy.abs(wc)):
            return f"values {g.tolist()} != numpy's {w.tolist()} (beyond 1e-13 relative)"
    elif tol:
        if not numpy.allclose(g.astype(complex), w.astype(complex), rtol=1e-9, atol=1e-9, equal_nan=True):
            return f"values {g.tolist()} != numpy's {w.tolist()}"
    elif not numpy.array_equal(g.astype(complex), w.astype(complex), equal_nan=True):
        return f"values {g.tolist()} != numpy's {w.tolist()}"
    return None


def nonfinite(x):
    if isinstance(x, (tuple, list)):
        return any(nonfinite(y) for y in x)
    try:
        a = numpy.asarray(x)
        return a.dtype.kind in "fc" and not numpy.all(numpy.isfinite(a))
    except Exception:  # noqa: BLE001
        return False


def judge(R, fname, label, f_impl, f_ref, tags, strict_kind=False, sub=None):
    R.tr()
    if "magnitudes" in tags and fname in ("prod", "cumprod"):
        # a product across 600 orders of magnitude under- or overflows depending on the folding order, which the
        # property does not fix; products are compared bit for bit on the other kinds
        R.stat("order_dependent_float_product_skipped")
        return
    ref = C08.outcome(f_ref)
    if ref[0] == "exc":
        R.stat("numpy_rejects")
        return
    if nonfinite(ref[1]) and "kind=nf" not in tags:
        R.stat("nonfinite_reference")   # division by zero etc.: nan != nan, nothing exact to demand
        return
    got = C08.outcome(f_impl)
    if got[0] == "exc":
        R.fail(fname, "exception", f"{fname}{label}: {type(got[1]).__name__}: {str(got[1])[:200]} (numpy returns {str(ref[1])[:80]})", tags=tags, sub=sub)
        return
    # numpy.linalg.det is a floating-point LU factorisation, numpoly's det is exact polynomial arithmetic
    r = agree(to_numeric(got[1]), ref[1], strict_kind, tol=True if fname == "det" else "ulp" if "magnitudes" in tags and fname in ("prod", "cumprod") else False)
    if r:
        R.fail(fname, "wrong-value", f"{fname}{label}: {r}"[:460], tags=tags, sub=sub)
    else:
        R.outcome((fname, label, str(numpy.asarray(ref[1]).tolist())[:60] if not isinstance(ref[1], (tuple, list, str, type)) else str(ref[1])[:60]))


def axes_of(nd):
    """None, every single axis in both spellings, and every ordered selection of >= 2 distinct axes with every
    combination of positive / negative spelling of each entry"""
    out = [None]
    out += list(range(-nd, nd))
    for k in range(2, nd + 1):
        for sel in itertools.permutations(range(nd), k):
            for signs in itertools.product([0, 1], repeat=k):
                out.append(tuple(a - nd if s else a for a, s in zip(sel, signs)))
    return out


INDEX_FUNCS = {"argmax", "argmin", "count_nonzero", "nonzero"}
BOOL_FUNCS = {"all", "any", "isfinite", "isclose", "allclose", "equal", "not_equal", "less", "less_equal", "greater", "greater_equal",
              "logical_and", "logical_or"}


def cases(tier, seed):
    out = []
    for shape in [(67,), (2, 65), (130,)]:
        for kind in ("i", "f"):
            out.append({"k": "reductions", "s": list(shape), "rot": 1, "kind": kind})
            out.append({"k": "elementwise", "s": list(shape), "rot": 1, "kind": kind})
    for shape in [(2,), (3,), (4,), (2, 3), (2, 2, 3)]:
        for rot in (0, 1, 2):
            # infinities and nan among the constants: what numpy returns for them is what has to come back (nan taken equal to nan)
            out.append({"k": "reductions", "s": list(shape), "rot": rot, "kind": "nf"})
            out.append({"k": "elementwise", "s": list(shape), "rot": rot, "kind": "nf"})
    for shape in SHAPES:
        for rot in (0, 1, 2):
            for kind in ("i", "f", "mag") + (("u1", "i1", "f4", "?") if rot == 0 or shape in ((3,), (2, 3)) else ()):
                out.append({"k": "reductions", "s": list(shape), "rot": rot, "kind": kind})
                out.append({"k": "elementwise", "s": list(shape), "rot": rot, "kind": kind})
    names = sorted({getattr(k, "__name__", str(k)) for k in list(numpoly.FUNCTION_COLLECTION) + list(numpoly.UFUNC_COLLECTION)
                    if isinstance(k, numpy.ufunc) or (getattr(k, "__module__", "") or "").startswith("numpy")})
    for i0 in range(0, len(names), 8):
        out.append({"k": "catalogue", "names": names[i0:i0 + 8]})
    for shape in [(3,), (2, 3), (2, 2, 3)]:
        out.append({"k": "shapefuncs", "s": list(shape)})
    out.append({"k": "division"})
    for shape in [(3,), (2, 3), (2, 2, 3)]:
        out.append({"k": "apply", "s": list(shape)})
    out.append({"k": "nan"})
    return out


def run_nan(case, R):
    """nan among the constants where numpy's answer does not involve an order: closeness (equal_nan default and given),
    equality, finiteness, arithmetic (results compared with nan taken equal to nan)"""
    nan = float("nan")
    for a in (numpy.array([nan, 1.0, 2.0]), numpy.array([[nan, nan], [0.0, -1.5]]), numpy.array(nan)):
        b = numpy.where(numpy.isnan(a), a, a + 1e-12)
        p, q = const_poly(a), const_poly(b, "q1")
        tags = ["kind=nf", "nan"]
        R.state(("nan", a.shape))
        for fname, kws in (("isclose", [{}, {"equal_nan": True}, {"equal_nan": False}, {"rtol": 0.0, "atol": 0.0}]), ("allclose", [{}, {"equal_nan": True}]),
                           ("equal", [{}]), ("not_equal", [{}]), ("add", [{}]), ("multiply", [{}]), ("subtract", [{}])):
            for kw in kws:
                npf = getattr(numpy, fname)
                for lab, x, y, nx, ny in (("(a,b)", p, q, a, b), ("(a,a)", p, p, a, a), ("(b,a)", q, p, b, a)):
                    judge(R, fname, f"{lab} {kw} a={a.tolist()}", lambda: getattr(numpoly, fname)(x, y, **kw), lambda: npf(nx, ny, **kw), tags, strict_kind=fname in BOOL_FUNCS)
                    judge(R, fname, f"[numpy]{lab} {kw} a={a.tolist()}", lambda: npf(x, y, **kw), lambda: npf(nx, ny, **kw), tags, strict_kind=fname in BOOL_FUNCS)
        for fname in ("isfinite", "negative", "absolute", "square"):
            judge(R, fname, f"({a.tolist()})", lambda: getattr(numpoly, fname)(p), lambda: getattr(numpy, fname)(a), tags, strict_kind=fname in BOOL_FUNCS)


def run_apply(case, R):
    """apply_along_axis / apply_over_axes with functions whose result is wider, narrower or of another kind than the input"""
    shape = tuple(case["s"])
    nd = len(shape)
    funcs = [("sum", numpy.sum), ("mean", numpy.mean), ("max", numpy.max), ("reverse", lambda x: x[::-1]), ("x > 1", lambda x: x > 1), ("cumsum", numpy.cumsum),
             ("x / 2", lambda x: x / 2), ("argmax", numpy.argmax), ("count > 0", lambda x: numpy.sum(x > 0)), ("x * 0.5", lambda x: x * 0.5),
             ("std-free spread", lambda x: numpy.max(x) - numpy.min(x)), ("first two", lambda x: x[:2])]
    for kind in ("i", "f", "?", "u1"):
        for rot in (0, 1):
            a = filled(shape, rot, kind)
            p = const_poly(a)
            R.state(("apply", shape, kind, rot))
            tags = [f"ndim={nd}", f"kind={kind}", "apply"]
            for (fl, fn), ax in itertools.product(funcs, range(-nd, nd)):
                if kind == "?" and fl in ("x / 2", "std-free spread"):
                    continue
                for sp_, mod in (("numpoly", numpoly), ("numpy", numpy)):
                    judge(R, "apply_along_axis", f"[{sp_}]({fl}, {ax}) on {a.tolist()}", lambda: mod.apply_along_axis(fn, ax, p), lambda: numpy.apply_along_axis(fn, ax, a), tags,
                          strict_kind=fl in ("x > 1", "argmax", "count > 0"))
            for fl, fn in (("sum", numpy.sum), ("mean", numpy.mean), ("max", numpy.max)):
                for axes in [0, [0], list(range(nd)), [-1]]:
                    for sp_, mod in (("numpoly", numpoly), ("numpy", numpy)):
                        judge(R, "apply_over_axes", f"[{sp_}]({fl}, {axes}) on {a.tolist()}", lambda: mod.apply_over_axes(fn, p, axes), lambda: numpy.apply_over_axes(fn, a, axes), tags)


def run_case(case, R):
    k = case["k"]
    if k == "apply":
        return run_apply(case, R)
    if k == "nan":
        return run_nan(case, R)
    if k in ("reductions", "elementwise"):
        shape, rot, kind = tuple(case["s"]), case["rot"], case["kind"]
        a = filled(shape, rot, kind)
        # constants are stored in every representation: terms unsorted, extra zero terms, unused names, views
        reps = ["canon", "zeroterm+unsorted", "unusedname+unsorted", "zeroterm+view", "zeroterm+unsorted+T" if len(shape) >= 2 else "zeroterm+unsorted+rev" if shape else "zeroterm+unsorted"]
        if kind == "nf":
            # an explicit zero term times an infinite coefficient is nan (IEEE): no zero terms next to infinities
            reps = ["canon", "unusedname+unsorted", "view"]
        p = const_poly(a, variant="T" if len(shape) >= 2 and rot == 2 else reps[(rot + len(shape) + len(kind)) % len(reps)])
        nd = len(shape)
        tags = [f"ndim={nd}", f"kind={kind}"] + (["magnitudes"] if kind == "mag" else [])
        R.state((k, shape, rot, kind))
        if k == "reductions":
            for fname in ("sum", "prod", "mean", "amax", "amin", "max", "min", "all", "any", "count_nonzero"):
                npf = getattr(numpy, fname)
                for ax in axes_of(nd):
                    for keep in (False, True):
                        tg = tags + [f"axis={'None' if ax is None else 'tuple' if isinstance(ax, tuple) else 'int'}", f"keepdims={keep}"]
                        for sp_, f in (("numpoly", lambda: getattr(numpoly, fname)(p, axis=ax, keepdims=keep)), ("numpy", lambda: npf(p, axis=ax, keepdims=keep))):
                            judge(R, fname, f"[{sp_}](axis={ax}, keepdims={keep}) on {a.tolist()}", f, lambda: npf(a, axis=ax, keepdims=keep), tg,
                                  strict_kind=fname in INDEX_FUNCS | BOOL_FUNCS)
                judge(R, fname, f"() on {a.tolist()}", lambda: getattr(numpoly, fname)(p), lambda: npf(a), tags + ["axis=None"], strict_kind=fname in INDEX_FUNCS | BOOL_FUNCS)
            # positional spellings in numpy's parameter order
            if nd:
                for fname, pos in (("sum", (0,)), ("prod", (nd - 1,)), ("mean", (0,)), ("amax", (0,)), ("amin", (-1,)), ("all", (0,)), ("any", (0,)),
                                   ("count_nonzero", (0,)), ("cumsum", (0,)), ("argmax", (0,)), ("argmin", (-1,)), ("repeat", (2, 0)),
                                   ("around", (1,)), ("expand_dims", (0,)), ("moveaxis", (0, -1)), ("tile", (2,))):
                    npf = getattr(numpy, fname)
                    for sp_, f in (("numpoly", lambda: getattr(numpoly, fname)(p, *pos)), ("numpy", lambda: npf(p, *pos))):
                        judge(R, fname, f"[{sp_} positional]{pos} on {a.tolist()}", f, lambda: npf(a, *pos), tags + ["positional"], strict_kind=fname in INDEX_FUNCS | BOOL_FUNCS)
            for fname in ("argmax", "argmin", "cumsum"):
                npf = getattr(numpy, fname)
                for ax in [None] + list(range(-nd, nd)):
                    for sp_, f in (("numpoly", lambda: getattr(numpoly, fname)(p, axis=ax)), ("numpy", lambda: npf(p, axis=ax))):
                        judge(R, fname, f"[{sp_}](axis={ax}) on {a.tolist()}", f, lambda: npf(a, axis=ax), tags + [f"axis={'None' if ax is None else 'int'}"],
                              strict_kind=fname in INDEX_FUNCS)
            for meth in ("max", "min", "sum", "mean", "prod", "all", "any"):
                for ax in [None] + list(range(-nd, nd)):
                    judge(R, meth, f"[method](axis={ax}) on {a.tolist()}", lambda: getattr(p, meth)(axis=ax), lambda: getattr(a, meth)(axis=ax), tags + ["method"])
                    judge(R, meth, f"[method](axis={ax}, keepdims=True) on {a.tolist()}", lambda: getattr(p, meth)(axis=ax, keepdims=True),
                          lambda: getattr(a, meth)(axis=ax, keepdims=True), tags + ["method", "keepdims=True"])
                judge(R, meth, f"[method]() on {a.tolist()}", lambda: getattr(p, meth)(), lambda: getattr(a, meth)(), tags + ["method", "defaults"])
                if nd:
                    judge(R, meth, f"[method](0) positional on {a.tolist()}", lambda: getattr(p, meth)(0), lambda: getattr(a, meth)(0), tags + ["method", "positional"])
            for meth in ("cumsum", "round", "ravel", "flatten", "copy", "transpose", "squeeze"):
                judge(R, meth, f"[method]() on {a.tolist()}", lambda: getattr(p, meth)(), lambda: getattr(a, meth)(), tags + ["method", "defaults"])
            judge(R, "nonzero", f" on {a.tolist()}", lambda: numpoly.nonzero(p), lambda: numpy.nonzero(a), tags, strict_kind=True) if nd else None
            judge(R, "where", f"(c) on {a.tolist()}", lambda: numpoly.where(p), lambda: numpy.where(a), tags, strict_kind=True) if nd else None
            if nd >= 1:
                judge(R, "diff", f" on {a.tolist()}", lambda: numpoly.diff(p), lambda: numpy.diff(a), tags) if shape[-1] > 1 else None
                judge(R, "ediff1d", f" on {a.tolist()}", lambda: numpoly.ediff1d(p), lambda: numpy.ediff1d(a), tags) if a.size > 1 else None
            R.sample({"constants": a.tolist(), "functions": "reductions x every axis x keepdims"})
        else:
            narrow = kind in ("u1", "i1", "f4", "?")
            if kind == "mag":
                # comparisons, extremes and closeness of values that differ by 1e-15 or span 600 orders of magnitude
                for fname in ("equal", "not_equal", "less", "less_equal", "greater", "greater_equal", "maximum", "minimum", "isclose", "allclose",
                              "logical_and", "logical_or"):
                    npf = getattr(numpy, fname)
                    b_ = filled(shape, (rot + 1) % 3, kind)
                    q_ = const_poly(b_, "q1")
                    for lab, pa, pb, na, nb in (("(a,b)", p, q_, a, b_), ("(b,a)", q_, p, b_, a), ("(a,a)", p, p, a, a), ("(a,1e-15)", p, 1e-15, a, 1e-15)):
                        judge(R, fname, f"{lab} a={a.tolist()} b={b_.tolist()}", lambda: getattr(numpoly, fname)(pa, pb), lambda: npf(na, nb), tags,
                              strict_kind=fname in BOOL_FUNCS)
                for fname in ("absolute", "negative", "square", "isfinite", "rint", "floor", "ceil"):
                    with numpy.errstate(all="ignore"):
                        judge(R, fname, f"({a.tolist()})", lambda: getattr(numpoly, fname)(p), lambda: getattr(numpy, fname)(a), tags, strict_kind=fname in BOOL_FUNCS)
                return
            b = filled(shape, (rot + 1) % 3, kind)
            q = const_poly(b, "q1")
            # the constant as plain numbers again, as the exponent of a power, as the source of copyto
            judge(R, "tonumpy", f"({a.tolist()})", lambda: numpoly.tonumpy(p), lambda: a, tags)
            judge(R, "tonumpy", f"[method]({a.tolist()})", lambda: p.tonumpy(), lambda: a, tags)
            if kind in ("i", "u1", "?"):
                ex_ = numpy.abs(a).astype(int) % 4
                pe = const_poly(ex_, variant=reps[(rot + 1) % len(reps)])
                judge(R, "power", f"(3, constant polynomial {ex_.tolist()})", lambda: numpoly.power(3, pe), lambda: numpy.power(3, ex_), tags + ["polynomial_exponent"])
                judge(R, "power", f"[numpy](b, constant polynomial {ex_.tolist()})", lambda: numpy.power(numpy.abs(b).astype(int) + 1, pe), lambda: numpy.power(numpy.abs(b).astype(int) + 1, ex_), tags + ["polynomial_exponent"])

            def copied(spelling):
                dst = numpy.zeros(a.shape, dtype=float if kind in ("i", "f", "u1", "i1", "f4", "?", "nf") else a.dtype)
                (numpoly.copyto if spelling == "numpoly" else numpy.copyto)(dst, p)
                return dst
            if nd:
                judge(R, "copyto", f"(ndarray, {a.tolist()})", lambda: copied("numpoly"), lambda: a.astype(float), tags)
            for fname in ("absolute", "negative", "positive", "square", "ceil", "floor", "rint", "isfinite"):
                judge(R, fname, f"({a.tolist()})", lambda: getattr(numpoly, fname)(p), lambda: getattr(numpy, fname)(a), tags, strict_kind=fname in BOOL_FUNCS)
            x = a * 0.37 if kind == "f" else a
            px = const_poly(x)
            for dec in (0, 1, 2, -1):
                judge(R, "around", f"({x.tolist()}, {dec})", lambda: numpoly.around(px, dec), lambda: numpy.around(x, dec), tags)
                judge(R, "round", f"[method]({x.tolist()}, {dec})", lambda: px.round(dec), lambda: x.round(dec), tags)
            for fname in ("add", "subtract", "multiply", "equal", "not_equal", "less", "less_equal", "greater", "greater_equal", "maximum",
                          "minimum", "logical_and", "logical_or", "isclose", "allclose"):
                npf = getattr(numpy, fname)
                for lab, pa, pb, na, nb in (("(a,b)", p, q, a, b), ("(a,2)", p, 2, a, 2), ("(1,a)", 1, p, 1, a), ("(a,a)", p, p, a, a),
                                            ("(a,b[...,:1])", p, q[..., :1] if nd else q, a, b[..., :1] if nd else b)):
                    if narrow and (isinstance(pa, int) or isinstance(pb, int)) and fname in ("add", "subtract", "multiply", "maximum", "minimum"):
                        continue   # numpy's weak-scalar promotion keeps the narrow dtype (and wraps); not part of the claim
                    judge(R, fname, f"{lab} a={a.tolist()} b={b.tolist()}", lambda: getattr(numpoly, fname)(pa, pb), lambda: npf(na, nb), tags,
                          strict_kind=fname in BOOL_FUNCS)
                    judge(R, fname, f"[numpy]{lab} a={a.tolist()} b={b.tolist()}", lambda: npf(pa, pb), lambda: npf(na, nb), tags, strict_kind=fname in BOOL_FUNCS)
            # tolerance arguments (isclose is asymmetric in its operands: atol + rtol*|b|)
            for kw in ({"rtol": 0.4, "atol": 0}, {"rtol": 0.5}, {"rtol": 0, "atol": 1.5}, {"rtol": 0.25, "atol": 0.5}, {"equal_nan": True}):
                for fname in ("isclose", "allclose"):
                    npf = getattr(numpy, fname)
                    for lab, pa, pb, na, nb in (("(a,b)", p, q, a, b), ("(b,a)", q, p, b, a), ("(a,4)", p, 4, a, 4), ("(2,a)", 2, p, 2, a)):
                        judge(R, fname, f"{lab} {kw} a={a.tolist()} b={b.tolist()}", lambda: getattr(numpoly, fname)(pa, pb, **kw), lambda: npf(na, nb, **kw),
                              tags + ["tolerances"], strict_kind=True)
                        judge(R, fname, f"[numpy]{lab} {kw} a={a.tolist()} b={b.tolist()}", lambda: npf(pa, pb, **kw), lambda: npf(na, nb, **kw),
                              tags + ["tolerances"], strict_kind=True)
            if narrow:
                # power and the numeric division functions on narrow dtypes depend on numpy's value-based / weak-scalar
                # promotion rules (uint8 ** int64 -> int64, float32 / python float -> float32, bool / int): outside the claim
                R.stat("narrow_dtype_promotion_cases_skipped")
                return
            for fname in ("isclose", "allclose"):
                npf = getattr(numpy, fname)
                for pos in ((0.4, 0.0), (0.0, 1.5), (0.25,)):
                    judge(R, fname, f"(a,b,*{pos}) positional a={a.tolist()} b={b.tolist()}", lambda: getattr(numpoly, fname)(p, q, *pos), lambda: npf(a, b, *pos),
                          tags + ["positional"], strict_kind=True)
            e = (numpy.abs(b) % 3).astype(int) if kind != "nf" else (numpy.arange(b.size).reshape(b.shape) + rot) % 3
            judge(R, "power", f"({a.tolist()}, {e.tolist()})", lambda: numpoly.power(p, e), lambda: numpy.power(a, e), tags + ["integer_exponent"])
            if kind == "f":
                ef = numpy.abs(b) % 3
                judge(R, "power", f"({a.tolist()}, {ef.tolist()})", lambda: numpoly.power(p, ef), lambda: numpy.power(a, ef), tags + ["noninteger_exponent"])
            # numeric division functions on constants (divisor without zeros)
            d = numpy.where(b == 0, 2, b)
            pd = const_poly(d, "q1")
            for fname in ("true_divide", "divide", "floor_divide", "remainder", "divmod"):
                npf = getattr(numpy, fname)
                for lab, pa, pb_, na, nb in (("(a,d)", p, pd, a, d), ("(a,2)", p, 2, a, 2), ("(7,d)", 7, pd, 7, d), ("(a,-3)", p, -3, a, -3), ("(a,0.5)", p, 0.5, a, 0.5),
                                             ("(a,10)", p, 10, a, 10), ("(a,49)", p, 49, a, 49), ("(a,0.7)", p, 0.7, a, 0.7), ("(49,d)", 49, pd, 49, d)):
                    judge(R, fname, f"{lab} a={a.tolist()} d={d.tolist()}", lambda: getattr(numpoly, fname)(pa, pb_), lambda: npf(na, nb), tags + ["division"])
                    judge(R, fname, f"[numpy]{lab} a={a.tolist()} d={d.tolist()}", lambda: npf(pa, pb_), lambda: npf(na, nb), tags + ["division"])
    elif k == "catalogue":
        ops = C08.operands()
        arrays = {}
        for key, sp in ops.items():
            sp2 = dict(sp)
            n = int(numpy.prod(sp["s"])) if sp["s"] else 1
            dt = sp["d"]
            vals = [POOL[(i + len(key)) % len(POOL)] for i in range(n)]
            if dt == "f8":
                vals = [v * 0.5 for v in vals]
            if dt == "?":
                vals = [bool(v % 2) for v in vals]
            if key == "d":
                vals = [v if v else 2 for v in vals]   # divisors without zeros (nan != nan would be the harness's problem, not numpoly's)
            arrays[key] = numpy.array(vals, dtype=dt).reshape(sp["s"])
        P = {key: const_poly(arr, "q0") for key, arr in arrays.items()}
        cat_impl = C08.catalogue(P)
        cat_ref = C08.catalogue(arrays)
        skip_labels = {"(stack)"}
        for name in case["names"]:
            npf = C08.registry_lookup(name)
            nlf = getattr(numpoly, name, None)
            R.state(("cat", name))
            if npf is None or nlf is None or name in ("savetxt", "copyto", "full", "ones", "zeros", "array_repr", "array_str", "apply_along_axis", "apply_over_axes"):
                continue
            for (label, g), (label2, g2) in zip(cat_impl.get(name, []), cat_ref.get(name, [])):
                if label in skip_labels:
                    continue
                judge(R, name, f"{label} [catalogue on constants]", lambda: g(nlf), lambda: g2(npf), ["catalogue"], strict_kind=name in INDEX_FUNCS | BOOL_FUNCS)
    elif k == "shapefuncs":
        shape = tuple(case["s"])
        a = filled(shape, 0)
        p = const_poly(a)
        R.state(("shapefuncs", shape))
        for label, fname, g in C09.unary_calls(shape):
            if not hasattr(numpoly, fname):
                continue
            judge(R, fname, f" {label} on constants {shape}", lambda: g(getattr(numpoly, fname), p), lambda: g(getattr(numpy, fname), a), ["shape"])
        for idx in C09.index_exprs(shape):
            judge(R, "getitem", f" {C09.idx_label(idx)} on constants {shape}", lambda: p[C09.unwrap(idx)], lambda: a[C09.unwrap(idx)], ["shape"])
    elif k == "division":
        a = numpy.array([6, -7, 5])
        p = const_poly(a)
        q0, q1 = numpoly.variable(2)
        nonconst = [q0, numpoly.polynomial([q0, 1, 2]), numpoly.polynomial([1, 2, q1 ** 2 + 1]), q0 * q1 + 1]
        for fname in ("true_divide", "divide", "floor_divide", "remainder", "divmod"):
            for d in nonconst:
                for sp_, f in (("numpoly", getattr(numpoly, fname)), ("numpy", getattr(numpy, fname))):
                    R.tr()
                    try:
                        r = f(p, d)
                    except FeatureNotSupported:
                        R.outcome((fname, sp_, str(d)))
                    except Exception as err:  # noqa: BLE001
                        R.fail(fname, "wrong-exception", f"{sp_}.{fname}(constants, {d}) raised {type(err).__name__}: {err}, not FeatureNotSupported", tags=["nonconstant_divisor"])
                    else:
                        R.fail(fname, "no-exception", f"{sp_}.{fname}(constants, {d}) returned {r} instead of raising FeatureNotSupported", tags=["nonconstant_divisor"])
            R.state(("division", fname))
        # non-constant dividend with constant divisor is allowed for true_divide? (numeric division of coefficients) - only checked on constants
    else:
        raise KeyError(k)
