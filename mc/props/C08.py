"""C08  numpy, numpoly and operator spellings agree; unsupported numpy calls raise (registry sweep).

Positive half: every numpy callable found in numpoly's registries at run time x a catalogue of valid argument
tuples, called as numpy.f(...) and numpoly.f(...) (and operator / method / ufunc.reduce / accumulate spellings
where they exist): results must agree in type, shape, coefficient dtype, names and polynomial value (or raise the
same exception class).
Negative half: every public overridable numpy / numpy.linalg / numpy.fft function and every public ufunc that is
NOT registered, called with a polynomial in the first, second and both leading positions under generic argument
patterns, plus the ufunc methods outer/at/reduceat and unmapped reduce/accumulate. A dispatch probe (pass-through
wrappers of ndpoly.__array_function__/__array_ufunc__) records whether numpy's override protocol reached numpoly
and what numpoly's hook did: it must raise FeatureNotSupported."""
import itertools
import operator

import numpy
import numpy.testing.overrides

from .. import tree  # noqa: F401
import numpoly
from numpoly.baseclass import FeatureNotSupported

from ..alpha import alpha, build, build_checked, spec, wellformed
from .. import space
from . import C09, C10

ID = "C08"
CASE_BUDGET_S = 900

META = {
    "rule": "positive: every registry key that is a numpy callable x its argument catalogue (generic unary/binary/reduction "
            "patterns for a registered function without a catalogue entry) x {numpy.f, numpoly.f} (+ operator, method, "
            "ufunc.reduce/accumulate); negative: every public overridable function of numpy, numpy.linalg, numpy.fft and every "
            "public ufunc outside the registries x polynomial as 1st / 2nd / both leading arguments x 7 generic patterns x 2 "
            "operand shapes, ufunc methods outer/at/reduceat for every ufunc and reduce/accumulate outside the mapping tables. "
            "distinct = (callable, pattern, position).",
    "bounds": {"patterns": 7},
    "assumptions": ["a pattern rejected by numpy before the override protocol reaches numpoly is inconclusive",
                    "plain converters/creation functions that never dispatch on a polynomial are outside the claim"],
}

NEVER_DISPATCH = {"array", "asarray", "asanyarray", "ascontiguousarray", "asfortranarray", "require", "frombuffer", "fromfile",
                  "fromiter", "fromstring", "empty", "eye", "identity", "genfromtxt", "loadtxt", "put_along_axis", "arange",
                  "from_dlpack", "fromfunction", "tri", "full", "ones", "zeros", "copy"}

# ---- dispatch probe --------------------------------------------------------------------------
PROBE = {"log": None}


def install_probe():
    cls = numpoly.ndpoly
    if getattr(cls, "_verif_probed", False):
        return
    of, ou = cls.__array_function__, cls.__array_ufunc__

    def wrap(orig, kind):
        def hook(self, target, *a, **k):
            log = PROBE["log"]
            try:
                out = orig(self, target, *a, **k)
            except FeatureNotSupported:
                if log is not None:
                    log.append((kind, "FeatureNotSupported", target))
                raise
            except Exception as err:  # noqa: BLE001
                if log is not None:
                    log.append((kind, "raised:" + type(err).__name__ + ": " + str(err)[:80], target))
                raise
            if log is not None:
                log.append((kind, "returned" if out is not NotImplemented else "NotImplemented", target))
            return out
        return hook
    cls.__array_function__ = wrap(of, "function")
    cls.__array_ufunc__ = wrap(ou, "ufunc")
    cls._verif_probed = True


def probed(f):
    install_probe()
    PROBE["log"] = log = []
    try:
        try:
            return ("ok", f(), log)
        except Exception as err:  # noqa: BLE001
            return ("exc", err, log)
    finally:
        PROBE["log"] = None


# ---- operands ------------------------------------------------------------------------------------
class SubPoly(numpoly.ndpoly):
    """a strict subclass of ndpoly (views of it are polynomial arrays like any other)"""


class SubArray(numpy.ndarray):
    """an ndarray subclass as the numeric operand"""


def operands():
    q = {}
    q["v"] = C09.tagged((3,))                                   # vector, two names
    q["w"] = C09.tagged((3,), 40, ("q1", "q2"))
    q["m"] = C09.tagged((2, 2), 10)
    q["m2"] = C09.tagged((2, 2), 20, ("q0", "q2"), variant="T")
    q["s"] = C09.tagged((), 3)
    q["c"] = spec(("q0",), (3,), [((0,), [3, -1, 2])])          # constants
    q["d"] = spec(("q0",), (3,), [((0,), [2, 4, -3])])
    q["cf"] = spec(("q0",), (2, 2), [((0,), [1.5, -2.25, 0.0, 3.75])], "f8")
    q["b"] = spec(("q0",), (3,), [((0,), [True, False, True])], "?")
    q["f"] = spec(("q0", "q1"), (3,), [((1, 0), [0.5, -1.5, 2.0]), ((0, 0), [1.25, 0.0, -0.75])], "f8")
    return q


def catalogue(P):
    """name -> list of (label, g(f)) ; P: dict of built operands"""
    v, w, m, m2, s, c, d, cf, b, f_ = (P[k] for k in ("v", "w", "m", "m2", "s", "c", "d", "cf", "b", "f"))
    mask = numpy.array([True, False, True])
    cat = {}

    def add(name, *calls):
        cat.setdefault(name, []).extend(calls)
    for name in ("absolute", "negative", "positive", "square", "ceil", "floor", "rint", "isfinite"):
        add(name, ("(v)", lambda f: f(v)), ("(m)", lambda f: f(m)), ("(f)", lambda f: f(f_)), ("(s)", lambda f: f(s)), ("(cf)", lambda f: f(cf)))
    for name in ("around", "round"):
        add(name, ("(f)", lambda f: f(f_)), ("(f,1)", lambda f: f(f_, 1)), ("(cf,decimals=1)", lambda f: f(cf, decimals=1)))
    for name in ("add", "subtract", "multiply", "equal", "not_equal", "greater", "greater_equal", "less", "less_equal", "maximum",
                 "minimum", "logical_and", "logical_or", "isclose", "allclose"):
        add(name, ("(v,w)", lambda f: f(v, w)), ("(m,m2)", lambda f: f(m, m2)), ("(v,2)", lambda f: f(v, 2)), ("(3,v)", lambda f: f(3, v)),
            ("(m,v[:2])", lambda f: f(m, v[:2])), ("(s,s)", lambda f: f(s, s)), ("(v,[1,2,3])", lambda f: f(v, [1, 2, 3])),
            ("(f,c)", lambda f: f(f_, c)), ("(c,d)", lambda f: f(c, d)))
    add("power", ("(v,2)", lambda f: f(v, 2)), ("(m,[[0,1],[2,1]])", lambda f: f(m, [[0, 1], [2, 1]])), ("(s,3)", lambda f: f(s, 3)))
    for name in ("divide", "true_divide", "floor_divide", "remainder", "divmod"):
        add(name, ("(c,d)", lambda f: f(c, d)), ("(c,2)", lambda f: f(c, 2)), ("(cf,0.5)", lambda f: f(cf, 0.5)), ("(v,2)", lambda f: f(v, 2)),
            ("(v,w)", lambda f: f(v, w)), ("(7,d)", lambda f: f(7, d)))
    for name in ("sum", "prod", "mean", "amax", "amin", "max", "min", "all", "any", "argmax", "argmin", "count_nonzero"):
        add(name, ("(v)", lambda f: f(v)), ("(m)", lambda f: f(m)), ("(m,axis=0)", lambda f: f(m, axis=0)), ("(m,axis=-1)", lambda f: f(m, axis=-1)),
            ("(c)", lambda f: f(c)), ("(cf,axis=1)", lambda f: f(cf, axis=1)), ("(s)", lambda f: f(s)))
    for name in ("sum", "prod", "mean", "amax", "amin", "max", "min", "all", "any"):
        add(name, ("(m,axis=0,keepdims=True)", lambda f: f(m, axis=0, keepdims=True)))
    add("cumsum", ("(v)", lambda f: f(v)), ("(m,axis=0)", lambda f: f(m, axis=0)), ("(m)", lambda f: f(m)))
    add("nonzero", ("(v)", lambda f: f(v)), ("(c)", lambda f: f(c)), ("(m)", lambda f: f(m)))
    add("diff", ("(v)", lambda f: f(v)), ("(m,axis=0)", lambda f: f(m, axis=0)), ("(v,n=2)", lambda f: f(v, n=2)), ("(v,prepend=w)", lambda f: f(v, prepend=w)))
    add("ediff1d", ("(v)", lambda f: f(v)), ("(m)", lambda f: f(m)), ("(v,to_end=w)", lambda f: f(v, to_end=w)))
    add("inner", ("(v,w)", lambda f: f(v, w)), ("(v,[1,2,3])", lambda f: f(v, [1, 2, 3])))
    add("outer", ("(v,w)", lambda f: f(v, w)), ("(m,v)", lambda f: f(m, v)))
    add("matmul", ("(m,m2)", lambda f: f(m, m2)), ("(m,[[1,2],[3,4]])", lambda f: f(m, [[1, 2], [3, 4]])))
    add("det", ("(m)", lambda f: f(m)), ("(stack)", lambda f: f(numpoly.stack([m, m2]))))
    add("where", ("(mask,v,w)", lambda f: f(mask, v, w)), ("(mask,v,2)", lambda f: f(mask, v, 2)), ("(c)", lambda f: f(c)))
    add("choose", ("([0,1],m)", lambda f: f([0, 1], m)), ("(1,v)", lambda f: f(1, v)))
    add("result_type", ("(v,f)", lambda f: f(v, f_)), ("(v,float)", lambda f: f(v, float)), ("(b,v)", lambda f: f(b, v)))
    add("common_type", ("(v)", lambda f: f(v)), ("(v,f)", lambda f: f(v, f_)))
    add("array_repr", ("(v)", lambda f: f(v)), ("(m)", lambda f: f(m)), ("(f)", lambda f: f(f_)), ("(s)", lambda f: f(s)))
    add("array_str", ("(v)", lambda f: f(v)), ("(m)", lambda f: f(m)), ("(f)", lambda f: f(f_)), ("(s)", lambda f: f(s)))
    add("apply_along_axis", ("(sum,0,m)", lambda f: f(numpy.sum, 0, m)), ("(lambda x: x[::-1],1,m)", lambda f: f(lambda x: x[::-1], 1, m)))
    add("apply_over_axes", ("(sum,m,0)", lambda f: f(numpy.sum, m, 0)), ("(sum,m,[0,1])", lambda f: f(numpy.sum, m, [0, 1])))
    add("full_like", ("(m,s)", lambda f: f(m, s)), ("(v,7)", lambda f: f(v, 7)))
    for name in ("ones_like", "zeros_like"):
        add(name, ("(m)", lambda f: f(m)), ("(v)", lambda f: f(v)), ("(f)", lambda f: f(f_)))
    add("broadcast_arrays", ("(v,m[:, :1])", lambda f: f(v, s)), ("(m,v[:2])", lambda f: f(m, v[:2])))
    for name in ("concatenate", "stack", "hstack", "vstack", "dstack"):
        add(name, ("([v,w])", lambda f: f([v, w])), ("([m,m2])", lambda f: f([m, m2])), ("((v,v))", lambda f: f((v, v))))
    add("concatenate", ("([m,m2],axis=1)", lambda f: f([m, m2], axis=1)))
    add("stack", ("([m,m2],axis=-1)", lambda f: f([m, m2], axis=-1)))
    # shape functions with representative arguments (the full parameter space is C09's)
    for shape_op, key in (("v", v), ("m", m), ("m2", m2)):
        for label, fname, g in C09.unary_calls(tuple(key.shape)):
            if fname in ("reshape", "moveaxis", "diagonal", "split", "array_split") and hash(label) % 3:
                continue
            add(fname, (f"{label} on {shape_op}", (lambda f, g=g, key=key: g(f, key))))
    return cat


def same_terms(x, y):
    """term-by-term equality that takes nan for equal to nan (the exact model cannot: nan != nan)"""
    def terms(p):
        out = {}
        for e, c in zip(numpy.asarray(p.exponents).tolist(), p.coefficients):
            c = numpy.asarray(c)
            if numpy.any(c != 0):
                out[tuple(e)] = c
        return out
    tx, ty = terms(x), terms(y)
    return set(tx) == set(ty) and all(numpy.array_equal(tx[k_], ty[k_], equal_nan=tx[k_].dtype.kind in "fc") for k_ in tx)


def same(x, y):
    """agreement of two results: type, shape, dtype, names, value"""
    if isinstance(x, numpoly.ndpoly) or isinstance(y, numpoly.ndpoly):
        if not (isinstance(x, numpoly.ndpoly) and isinstance(y, numpoly.ndpoly)):
            return f"types differ: {type(x).__name__} vs {type(y).__name__}"
        if tuple(x.shape) != tuple(y.shape):
            return f"shapes {x.shape} vs {y.shape}"
        if x.dtype != y.dtype:
            return f"dtypes {x.dtype} vs {y.dtype}"
        if tuple(x.names) != tuple(y.names):
            return f"names {x.names} vs {y.names}"
        if x.size and alpha(x) != alpha(y) and not same_terms(x, y):
            return f"values {alpha(x)!r} vs {alpha(y)!r}"
        return None
    if isinstance(x, (tuple, list)) or isinstance(y, (tuple, list)):
        if not (isinstance(x, (tuple, list)) and isinstance(y, (tuple, list))) or len(x) != len(y):
            return f"sequence results differ in type/length: {type(x).__name__}/{type(y).__name__}"
        for i, (a, b) in enumerate(zip(x, y)):
            r = same(a, b)
            if r:
                return f"[{i}] {r}"
        return None
    if isinstance(x, numpy.ndarray) or isinstance(y, numpy.ndarray) or isinstance(x, numpy.generic) or isinstance(y, numpy.generic):
        ax, ay = numpy.asarray(x), numpy.asarray(y)
        if ax.shape != ay.shape:
            return f"shapes {ax.shape} vs {ay.shape}"
        if ax.dtype != ay.dtype:
            return f"dtypes {ax.dtype} vs {ay.dtype}"
        if not numpy.array_equal(ax, ay, equal_nan=ax.dtype.kind in "fc"):
            return f"values {ax.tolist()} vs {ay.tolist()}"
        return None
    if type(x) is not type(y):
        return f"types differ: {type(x).__name__} vs {type(y).__name__}"
    return None if x == y else f"{x!r} vs {y!r}"


def outcome(f):
    try:
        return ("ok", f())
    except Exception as err:  # noqa: BLE001
        return ("exc", err)


def compare_spellings(R, fname, label, a, b, la, lb, tags):
    R.tr()
    if a[0] == "exc" and b[0] == "exc":
        if type(a[1]) is not type(b[1]):
            R.fail(fname, "spelling-mismatch", f"{fname}{label}: {la} raised {type(a[1]).__name__}, {lb} raised {type(b[1]).__name__}: {b[1]}", tags=tags)
        else:
            R.stat("both_raise")
        return
    if a[0] != b[0]:
        R.fail(fname, "spelling-mismatch", f"{fname}{label}: {la} -> {a[0]} ({str(a[1])[:120]}), {lb} -> {b[0]} ({str(b[1])[:120]})", tags=tags)
        return
    r = same(a[1], b[1])
    if r:
        R.fail(fname, "spelling-mismatch", f"{fname}{label}: {la} vs {lb}: {r}"[:500], tags=tags)
    else:
        R.outcome((fname, label, la, lb))


# ---- negative half --------------------------------------------------------------------------------
def public_unregistered():
    """-> (functions: list of (qualified name, callable), ufuncs: list of (name, ufunc))"""
    overridable = numpy.testing.overrides.get_overridable_numpy_array_functions()
    registered = set(numpoly.FUNCTION_COLLECTION) | set(numpoly.UFUNC_COLLECTION)
    funcs = {}
    for modname, mod in (("numpy", numpy), ("numpy.linalg", numpy.linalg), ("numpy.fft", numpy.fft)):
        for attr in sorted(dir(mod)):
            if attr.startswith("_"):
                continue
            try:
                obj = getattr(mod, attr)
            except Exception:  # noqa: BLE001
                continue
            if isinstance(obj, numpy.ufunc):
                continue
            if callable(obj) and obj in overridable and obj not in registered:
                funcs.setdefault(f"{modname}.{attr}", obj)
    ufuncs = {}
    for attr in sorted(dir(numpy)):
        obj = getattr(numpy, attr, None)
        if isinstance(obj, numpy.ufunc) and obj not in registered:
            ufuncs.setdefault(obj.__name__, obj)
    return sorted(funcs.items()), sorted(ufuncs.items())


def neg_patterns(p):
    """generic argument patterns; p is the polynomial; returns (label, args)"""
    o = numpy.ones(p.shape)
    return [
        ("(p)", (p,)), ("(p,p)", (p, p)), ("(p,1)", (p, 1)), ("(1,p)", (1, p)), ("(o,p)", (o, p)), ("(p,0,1)", (p, 0, 1)), ("(p,p,p)", (p, p, p)),
        ("(p,[0])", (p, [0])), ("(o,p,p)", (o, p, p)),
    ]


def cases(tier, seed):
    out = []
    names = sorted({getattr(k, "__name__", str(k)) for k in list(numpoly.FUNCTION_COLLECTION) + list(numpoly.UFUNC_COLLECTION)
                    if isinstance(k, numpy.ufunc) or (getattr(k, "__module__", "") or "").startswith("numpy")})
    for i0 in range(0, len(names), 6):
        out.append({"k": "pos", "names": names[i0:i0 + 6]})
    out.append({"k": "operators"})
    funcs, ufuncs = public_unregistered()
    for i0 in range(0, len(funcs), 20):
        out.append({"k": "negf", "i0": i0, "i1": min(len(funcs), i0 + 20)})
    for i0 in range(0, len(ufuncs), 16):
        out.append({"k": "negu", "i0": i0, "i1": min(len(ufuncs), i0 + 16)})
    out.append({"k": "ufunc_methods"})
    return out


def registry_lookup(name):
    for coll in (numpoly.FUNCTION_COLLECTION, numpoly.UFUNC_COLLECTION):
        for k in coll:
            if getattr(k, "__name__", None) == name and (isinstance(k, numpy.ufunc) or (getattr(k, "__module__", "") or "").startswith("numpy")):
                return k
    return None


def run_case(case, R):
    k = case["k"]
    if k == "pos":
        P = {key: build_checked(sp) for key, sp in operands().items()}
        cat = catalogue(P)
        for name in case["names"]:
            npf = registry_lookup(name)
            nlf = getattr(numpoly, name, None)
            R.state(("pos", name))
            if npf is None or nlf is None:
                R.stat("no_numpoly_attribute")
                continue
            calls = cat.get(name)
            if not calls:
                R.stat("generic_catalogue:" + name)
                v, w, m = P["v"], P["w"], P["m"]
                calls = [("(v)", lambda f: f(v)), ("(v,w)", lambda f: f(v, w)), ("(m,axis=0)", lambda f: f(m, axis=0)), ("(m)", lambda f: f(m))]
            for label, g in calls:
                a = outcome(lambda: g(npf))
                b = outcome(lambda: g(nlf))
                compare_spellings(R, name, label, a, b, "numpy." + name, "numpoly." + name, ["positive"])
        R.sample({"functions": case["names"]})
    elif k == "operators":
        P = {key: build_checked(sp) for key, sp in operands().items()}
        v, w, m, m2, s, c, d, f_ = (P[x] for x in ("v", "w", "m", "m2", "s", "c", "d", "f"))
        ops = [("+", operator.add, numpy.add), ("-", operator.sub, numpy.subtract), ("*", operator.mul, numpy.multiply),
               ("==", operator.eq, numpy.equal), ("!=", operator.ne, numpy.not_equal), ("<", operator.lt, numpy.less),
               ("<=", operator.le, numpy.less_equal), (">", operator.gt, numpy.greater), (">=", operator.ge, numpy.greater_equal),
               ("@", operator.matmul, numpy.matmul), ("**", operator.pow, numpy.power)]
        # operands of other kinds: the same object on both sides, non-finite coefficients, a strict subclass of ndpoly,
        # an ndarray subclass as the numeric operand
        nf = build(spec(("q0", "q1"), (3,), [((1, 0), [float("nan"), float("inf"), 1.0]), ((0, 0), [2.0, float("nan"), -float("inf")])], "f8"))
        vs = numpy.ndarray.view(build_checked(operands()["v"]), SubPoly)
        ms = numpy.ndarray.view(build_checked(operands()["m"]), SubPoly)
        arr = numpy.array([1, -2, 3]).view(SubArray)
        more = (("v,v same object", v, v), ("m,m same object", m, m), ("f,f same object", f_, f_), ("nf,nf same object", nf, nf), ("nf,f", nf, f_),
                ("f,nf", f_, nf), ("nf,copy", nf, nf.copy()), ("sub,w", vs, w), ("w,sub", w, vs), ("sub,2", vs, 2), ("sub,sub same object", vs, vs),
                ("msub,m2", ms, m2), ("v,subarray", v, arr), ("subarray,v", arr, v), ("sub,subarray", vs, arr))
        for sym, opf, npf in ops:
            for la, a_, b_ in (("v,w", v, w), ("m,m2", m, m2), ("v,2", v, 2), ("3,v", 3, v), ("m,v2", m, v[:2]), ("s,s", s, s), ("f,c", f_, c)) + more:
                if sym in ("<", "<=", ">", ">=", "@") and la.startswith(("nf", "f,nf")):
                    continue    # no order on nan; matmul of nan sums is not compared
                if sym == "@" and "subarray" in la:
                    continue
                if sym == "**" and not isinstance(b_, int):
                    continue
                compare_spellings(R, "operator" + sym, f"({la})", outcome(lambda: opf(a_, b_)), outcome(lambda: npf(a_, b_)), "operator", "numpy." + npf.__name__, ["operators"])
                compare_spellings(R, "operator" + sym, f"({la}) numpoly", outcome(lambda: opf(a_, b_)), outcome(lambda: getattr(numpoly, npf.__name__)(a_, b_)), "operator", "numpoly." + npf.__name__, ["operators"])
        for sym, opf, npf in (("neg", operator.neg, numpy.negative), ("pos", operator.pos, numpy.positive), ("abs", operator.abs, numpy.absolute)):
            for x in (v, m, f_, s, c, vs, ms, nf):
                compare_spellings(R, "operator " + sym, "(x)", outcome(lambda: opf(x)), outcome(lambda: npf(x)), "operator", "numpy." + npf.__name__, ["operators"])
        # division operators are spellings of the poly_* functions
        tiny = build_checked(spec(("q0",), (2,), [((1,), [1e-40, 2.0]), ((0,), [3.0, 1e-35])], "f8"))
        for la, a_, b_ in (("v,2", v, 2), ("c,d", c, d), ("v,q0", v, numpoly.symbols("q0")), ("6,c", 6, c), ("f,0.5", f_, 0.5),
                           ("v,0", v, 0), ("f,0.0", f_, 0.0), ("f,2j", f_, 2j), ("v,1e40", v, 1e40), ("f,-2", f_, -2), ("v,-3", v, -3),
                           ("tiny,3", tiny, 3), ("tiny,1e-20", tiny, 1e-20), ("v,True", v, True), ("m,[[1,2],[0,4]]", m, [[1, 2], [0, 4]]),
                           ("v,numpy.float64(0)", v, numpy.float64(0)), ("2j,c", 2j, c), ("0,v", 0, v)):
            compare_spellings(R, "operator/", f"({la})", outcome(lambda: a_ / b_), outcome(lambda: numpoly.poly_divide(a_, b_)), "/", "poly_divide", ["operators", "division"])
            compare_spellings(R, "operator%", f"({la})", outcome(lambda: a_ % b_), outcome(lambda: numpoly.poly_remainder(a_, b_)), "%", "poly_remainder", ["operators", "division"])
            compare_spellings(R, "divmod", f"({la})", outcome(lambda: divmod(a_, b_)), outcome(lambda: numpoly.poly_divmod(a_, b_)), "divmod", "poly_divmod", ["operators", "division"])
        # methods (also on matrices that are not square: tall by two and more, wide, a single column, 3-d)
        NONSQUARE = tuple((build_checked(C09.tagged(sh, 30 + 7 * i)), f"{sh}") for i, sh in enumerate([(4, 2), (3, 1), (2, 4), (5, 3), (2, 3, 2)]))
        KD = [{"axis": 0, "keepdims": True}, {"keepdims": True}, {"axis": -1, "keepdims": True}, {"axis": 1}, {"axis": 0}, {}]
        for meth, npf, kws in (("sum", numpy.sum, KD), ("prod", numpy.prod, KD),
                               ("mean", numpy.mean, KD), ("cumsum", numpy.cumsum, [{}, {"axis": 0}, {"axis": -1}]),
                               ("max", numpy.max, KD), ("min", numpy.min, KD), ("all", numpy.all, KD),
                               ("any", numpy.any, KD),
                               ("round", numpy.round, [{}, {"decimals": 1}]), ("transpose", numpy.transpose, [{}]),
                               ("diagonal", numpy.diagonal, [{}, {"offset": 1}]), ("repeat", numpy.repeat, [{"repeats": 2, "axis": 0}]),
                               ("nonzero", numpy.nonzero, [{}])):
            for x, lx in ((m, "m"), (P["cf"], "cf"), (c, "c"), (ms, "msub")) + NONSQUARE:
                for kw in kws + ([{"offset": -1}, {"offset": 2}] if meth == "diagonal" else []):
                    if lx == "c" and (kw.get("axis") == 1 or meth in ("diagonal",)):
                        continue
                    compare_spellings(R, "method " + meth, f"({lx},{kw})", outcome(lambda: getattr(x, meth)(**kw)), outcome(lambda: npf(x, **kw)),
                                      "method", "numpy." + npf.__name__, ["methods"])
        # ufunc.reduce / accumulate spellings
        for uf, fn, kws in ((numpy.add, numpy.sum, [{}, {"axis": 0}, {"axis": 1, "keepdims": True}, {"axis": None}]),
                            (numpy.multiply, numpy.prod, [{}, {"axis": 1}, {"axis": None}]),
                            (numpy.logical_and, numpy.all, [{}, {"axis": 0}]), (numpy.logical_or, numpy.any, [{}, {"axis": 0}]),
                            (numpy.maximum, numpy.amax, [{}, {"axis": 0}]), (numpy.minimum, numpy.amin, [{}, {"axis": 0}])):
            for x, lx in ((m, "m"), (P["cf"], "cf")):
                for kw in kws:
                    kw2 = dict(kw)
                    if not kw:
                        kw2 = {"axis": 0}   # ufunc.reduce defaults to axis=0, the function to axis=None
                    compare_spellings(R, uf.__name__ + ".reduce", f"({lx},{kw})", outcome(lambda: uf.reduce(x, **kw)), outcome(lambda: fn(x, **kw2)),
                                      "ufunc.reduce", "numpy." + fn.__name__, ["reduce"])
        for uf, fn in ((numpy.add, numpy.cumsum), (numpy.multiply, numpy.cumprod)):
            for x, lx in ((m, "m"), (v, "v")):
                for ax in (0, -1):
                    if ax >= x.ndim:
                        continue
                    compare_spellings(R, uf.__name__ + ".accumulate", f"({lx},axis={ax})", outcome(lambda: uf.accumulate(x, axis=ax)),
                                      outcome(lambda: fn(x, axis=ax)), "ufunc.accumulate", "numpy." + fn.__name__, ["accumulate"])
        R.state("operators")
    elif k in ("negf", "negu"):
        funcs, ufuncs = public_unregistered()
        items = (funcs if k == "negf" else ufuncs)[case["i0"]:case["i1"]]
        polys = [build_checked(C09.tagged((3,))), build_checked(C09.tagged((2, 2), 10)), numpy.ndarray.view(build_checked(C09.tagged((3,))), SubPoly)]
        for name, f in items:
            conclusive = 0
            R.state((k, name))
            for p in polys:
                for label, args in neg_patterns(p):
                    R.tr()
                    st, val, log = probed(lambda: f(*args))
                    reached = [e for e in log if e[2] is f]   # numpy's own internal calls of other (registered) callables do not count
                    short = name.split(".")[-1]
                    tags = ["negative", "ufunc" if k == "negu" else "function"]
                    if not reached:
                        if st == "ok" and label == "(p)" and short not in NEVER_DISPATCH:
                            R.fail(name, "computed-from-raw-storage", f"{name}{label} returned {type(val).__name__} without consulting numpoly", tags=tags)
                        else:
                            R.stat("inconclusive")
                        continue
                    conclusive += 1
                    bad = [e for e in reached if e[1] != "FeatureNotSupported"]
                    if bad:
                        R.fail(name, "not-FeatureNotSupported", f"{name}{label}: numpoly's hook {bad[0][0]} -> {bad[0][1]} (call outcome: {st} {str(val)[:80]})", tags=tags)
                    elif st != "exc" or not isinstance(val, FeatureNotSupported):
                        R.fail(name, "not-FeatureNotSupported", f"{name}{label}: numpoly raised FeatureNotSupported but the call ended with {st}: {type(val).__name__} {str(val)[:80]}", tags=tags)
                    else:
                        R.outcome((name, label))
            if not conclusive and name.split(".")[-1] not in NEVER_DISPATCH:
                R.stat("no_conclusive_pattern:" + name)
        R.sample({"unregistered": [n for n, _ in items][:8]})
    elif k == "ufunc_methods":
        p = build_checked(C09.tagged((3,)))
        m = build_checked(C09.tagged((2, 2), 10))
        all_ufuncs = sorted({getattr(numpy, a) for a in dir(numpy) if isinstance(getattr(numpy, a, None), numpy.ufunc)}, key=lambda u: u.__name__)
        from numpoly.baseclass import REDUCE_MAPPINGS, ACCUMULATE_MAPPINGS
        for uf in all_ufuncs:
            R.state(("um", uf.__name__))
            calls = []
            if uf.nin == 2 and uf.nout == 1:
                calls += [("outer", lambda: uf.outer(p, p)), ("outer(p,o)", lambda: uf.outer(p, numpy.ones(3))), ("reduceat", lambda: uf.reduceat(p, [0, 1])),
                          ("at", lambda: uf.at(p.copy(), [0], p[:1]))]
                if uf not in REDUCE_MAPPINGS:
                    calls += [("reduce", lambda: uf.reduce(p)), ("reduce axis", lambda: uf.reduce(m, axis=1))]
                if uf not in ACCUMULATE_MAPPINGS:
                    calls += [("accumulate", lambda: uf.accumulate(p)), ("accumulate axis", lambda: uf.accumulate(m, axis=1))]
            elif uf.nin == 1:
                calls += [("at", lambda: uf.at(p.copy(), [0]))]
            for label, f in calls:
                R.tr()
                st, val, log = probed(f)
                tags = ["ufunc_method", "method=" + label.split("(")[0].split(" ")[0]]
                log = [e for e in log if e[2] is uf]
                if not log:
                    R.stat("inconclusive")
                    continue
                bad = [e for e in log if e[1] != "FeatureNotSupported"]
                if bad or st != "exc" or not isinstance(val, FeatureNotSupported):
                    R.fail(f"{uf.__name__}.{label.split('(')[0].split(' ')[0]}", "not-FeatureNotSupported",
                           f"numpy.{uf.__name__}.{label}: hook {(bad[0] if bad else log[0])[:2]}, call ended with {st}: {type(val).__name__} {str(val)[:100]}", tags=tags)
                else:
                    R.outcome((uf.__name__, label))
    else:
        raise KeyError(k)


def post(agg, tier, seed, cov):
    cov["functions_without_conclusive_pattern"] = sorted(k.split(":", 1)[1] for k in agg["stats"] if k.startswith("no_conclusive_pattern:"))
    cov["registered_without_catalogue"] = sorted(k.split(":", 1)[1] for k in agg["stats"] if k.startswith("generic_catalogue:"))
    return []
