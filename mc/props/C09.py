"""C09  Shape functions and indexing move whole polynomial elements like numpy (E1 + depth-2 compositions).

Oracle: the same numpy function applied to every coefficient array of the model (numpy on plain arrays is
the reference for "where numpy would have placed it"); inputs are *tagged* arrays (every element a distinct
polynomial with a different zero pattern), in five representations (canonical, .T view, Fortran order,
strided slice view, redundant zero term)."""
import itertools

import numpy

from .. import tree  # noqa: F401
import numpoly

from ..alpha import alpha, build_checked, model_of, spec, spec_of_model, wellformed
from ..model import V, exact_array, ONE, name_index
from .. import space

ID = "C09"
CASE_BUDGET_S = 900

SHAPES = [(), (1,), (2,), (3,), (4,), (6,), (1, 1), (1, 3), (3, 1), (1, 4), (4, 1), (2, 2), (2, 3), (1, 2, 2), (2, 1, 3),
          (2, 2, 2), (3, 2, 1), (1, 6, 1)]
VARIANTS = ["canon", "T", "F", "slice", "zeroterm", "rev", "readonly"]

META = {
    "rule": "tagged polynomial arrays of 18 shapes (0-3 dims, size-1 axes, single-row matrices) x 5 representations x "
            "all valid parameters of each shape function (every reshape target x order C/F/A, every axes permutation, "
            "every moveaxis pair, every expand_dims axis, repeat counts/vectors x axis, tile reps, all split sections/index "
            "lists x axis, diag/diagonal offsets x axis pairs, broadcast, where with every mask, choose x modes, full/"
            "full_like, joins of 2-3 operands with differing name/term sets x axis), every index expression built from "
            "ints, slices, Ellipsis, newaxis, integer arrays and boolean masks up to the array's ndim, iteration/ravel/"
            "flatten/.T, and every depth-2 composition of 24 unary shape functions. Both numpoly.f and numpy.f spellings. "
            "distinct = (function, parameters, shape, representation).",
    "bounds": {"shapes": len(SHAPES), "variants": VARIANTS, "max_ndim": 3, "max_size": 8},
    "assumptions": ["numpy applied to plain coefficient arrays is the reference for element placement",
                    "repeat is always called with an explicit axis (omitted axis is pinned to axis=0 by the existing "
                    "test_repeat, where numpy flattens; recorded as known deviation, DESIGN.md section 4)"],
}


def tagged(shape, base=0, names=("q0", "q1"), dtype="i8", variant="canon"):
    n = int(numpy.prod(shape)) if shape else 1
    tags = [base + i + 1 for i in range(n)]
    k = len(names)

    def ex(a, b):
        return (a,) + (0,) * (k - 2) + (b,)
    terms = [(ex(1, 0), tags), (ex(0, 0), [int(t % 3 == 0) for t in tags]),
             (ex(0, 1), [int(t % 3 == 1) * 2 for t in tags]), (ex(0, 2), [int(t % 3 == 2) * -1 for t in tags])]
    return spec(names, shape, terms, dtype, variant)


def vmap_multi(fn, vs):
    """numpy function of a list of arrays applied monomial-wise to several model values"""
    monos = set()
    for v in vs:
        monos |= set(v.t)

    def z(v):
        a = numpy.empty(v.shape, dtype=object)
        a[...] = 0
        return a
    rz = fn([z(v) for v in vs])
    if isinstance(rz, (list, tuple)):
        outs = [dict() for _ in rz]
        for m in monos:
            for o, r in zip(outs, fn([v.t.get(m, z(v)) for v in vs])):
                o[m] = r
        return [V(o, numpy.shape(r)) for o, r in zip(outs, rz)]
    return V({m: fn([v.t.get(m, z(v)) for v in vs]) for m in monos}, numpy.shape(rz))


# ---- catalogue of single-operand calls -----------------------------------------------------------
def reshape_targets(shape):
    n = int(numpy.prod(shape)) if shape else 1
    out = {(-1,), (n,), (1, n), (n, 1), (1, 1, n)}
    for a in range(1, n + 1):
        if n % a == 0:
            out.add((a, n // a))
            out.add((a, -1))
            for b in range(1, n // a + 1):
                if (n // a) % b == 0:
                    out.add((a, b, n // a // b))
    return sorted(out)


def unary_calls(shape):
    """yield (label, fname, g) with g(f, x) -> result; fname is the attribute of numpy / numpoly"""
    nd = len(shape)
    n = int(numpy.prod(shape)) if shape else 1
    for tgt in reshape_targets(shape):
        for order in ("C", "F", "A"):
            yield f"reshape {tgt} {order}", "reshape", (lambda f, x, t=tgt, o=order: f(x, t, order=o))
    if n == 1:
        yield "reshape ()", "reshape", (lambda f, x: f(x, ()))
    yield "transpose", "transpose", (lambda f, x: f(x))
    for axes in itertools.permutations(range(nd)):
        yield f"transpose {axes}", "transpose", (lambda f, x, a=axes: f(x, a))
    for s in range(-nd, nd):
        for d in range(-nd, nd):
            yield f"moveaxis {s}->{d}", "moveaxis", (lambda f, x, s=s, d=d: f(x, s, d))
    if nd >= 2:
        yield "moveaxis (0,1)->(-1,0)", "moveaxis", (lambda f, x: f(x, (0, 1), (-1, 0)))
    for ax in range(-nd - 1, nd + 1):
        yield f"expand_dims {ax}", "expand_dims", (lambda f, x, a=ax: f(x, a))
    for fn in ("atleast_1d", "atleast_2d", "atleast_3d"):
        yield fn, fn, (lambda f, x: f(x))
    # every optional argument left at its default
    if nd:
        yield "split default axis", "split", (lambda f, x: f(x, 1))
        yield "split [1] default axis", "split", (lambda f, x: f(x, [1]))
        yield "array_split default axis", "array_split", (lambda f, x: f(x, 2))
        yield "array_split [1] default axis", "array_split", (lambda f, x: f(x, [1]))
    if nd in (1, 2):
        yield "diag default k", "diag", (lambda f, x: f(x))
    yield "reshape default order", "reshape", (lambda f, x: f(x, (-1,)))
    yield "tile default", "tile", (lambda f, x: f(x, 2))
    # keyword spellings of the same arguments
    yield "reshape shape=(-1,)", "reshape", (lambda f, x: f(x, shape=(-1,)))
    yield "reshape shape=, order=F", "reshape", (lambda f, x: f(x, shape=(n,), order="F"))
    if nd:
        yield "transpose axes=", "transpose", (lambda f, x: f(x, axes=tuple(range(nd))[::-1]))
        yield "moveaxis source=,destination=", "moveaxis", (lambda f, x: f(x, source=0, destination=-1))
        yield "repeat repeats=,axis=", "repeat", (lambda f, x: f(x, repeats=2, axis=-1))
        yield "split indices_or_sections=,axis=", "split", (lambda f, x: f(x, indices_or_sections=[1], axis=0))
        yield "array_split axis= first", "array_split", (lambda f, x: f(x, axis=0, indices_or_sections=2))
    yield "expand_dims axis=", "expand_dims", (lambda f, x: f(x, axis=0))
    yield "tile reps=", "tile", (lambda f, x: f(x, reps=(1, 2)))
    if nd >= 2:
        yield "diagonal offset=,axis1=,axis2=", "diagonal", (lambda f, x: f(x, offset=0, axis1=1, axis2=0))
        yield "diagonal axis2= only", "diagonal", (lambda f, x: f(x, axis2=-1))
    if nd in (1, 2):
        yield "diag k=", "diag", (lambda f, x: f(x, k=1))
    for ax in range(-nd, nd):
        for rep in (0, 1, 2):
            yield f"repeat {rep} axis={ax}", "repeat", (lambda f, x, r=rep, a=ax: f(x, r, axis=a))
        vec = [(i % 3) for i in range(shape[ax])]
        yield f"repeat {vec} axis={ax}", "repeat", (lambda f, x, r=vec, a=ax: f(x, r, axis=a))
    for reps in (0, 1, 2, (2,), (1, 2), (2, 1), (2, 2), (1, 1, 2), (2, 1, 2)):
        yield f"tile {reps}", "tile", (lambda f, x, r=reps: f(x, r))
    for ax in range(-nd, nd):
        L = shape[ax]
        for sec in range(1, L + 1):
            if L % sec == 0:
                yield f"split {sec} axis={ax}", "split", (lambda f, x, s=sec, a=ax: f(x, s, axis=a))
            yield f"array_split {sec} axis={ax}", "array_split", (lambda f, x, s=sec, a=ax: f(x, s, axis=a))
        yield f"array_split {L + 1} axis={ax}", "array_split", (lambda f, x, s=L + 1, a=ax: f(x, s, axis=a))
        for idx in ([0], [1], [1, 2], [0, L], [2, 1]):
            yield f"split {idx} axis={ax}", "split", (lambda f, x, s=idx, a=ax: f(x, s, axis=a))
            yield f"array_split {idx} axis={ax}", "array_split", (lambda f, x, s=idx, a=ax: f(x, s, axis=a))
    if nd >= 1:
        L = shape[1] if nd >= 2 else shape[0]
        for sec in [s for s in range(1, L + 1) if L % s == 0] + [[1]]:
            yield f"hsplit {sec}", "hsplit", (lambda f, x, s=sec: f(x, s))
    if nd >= 2:
        for sec in [s for s in range(1, shape[0] + 1) if shape[0] % s == 0] + [[1]]:
            yield f"vsplit {sec}", "vsplit", (lambda f, x, s=sec: f(x, s))
    if nd >= 3:
        for sec in [s for s in range(1, shape[2] + 1) if shape[2] % s == 0] + [[1]]:
            yield f"dsplit {sec}", "dsplit", (lambda f, x, s=sec: f(x, s))
    if nd in (1, 2):
        for k in (-2, -1, 0, 1, 2):
            yield f"diag {k}", "diag", (lambda f, x, k=k: f(x, k))
    if nd >= 2:
        for k in (-2, -1, 0, 1, 2):
            for a1, a2 in itertools.permutations(range(nd), 2):
                yield f"diagonal {k} {a1},{a2}", "diagonal", (lambda f, x, k=k, a1=a1, a2=a2: f(x, k, a1, a2))
        yield "diagonal default", "diagonal", (lambda f, x: f(x))


def method_calls(shape):
    """ndarray methods/attributes that numpoly inherits or overrides: (label, g(x))"""
    nd = len(shape)
    n = int(numpy.prod(shape)) if shape else 1
    yield "ravel", lambda x: x.ravel()
    yield "flatten", lambda x: x.flatten()
    yield "flatten F", lambda x: x.flatten("F")
    yield ".T", lambda x: x.T
    yield "copy", lambda x: x.copy()
    yield ".reshape(-1)", lambda x: x.reshape(-1)
    yield ".reshape(n,1)", lambda x: x.reshape(n, 1)
    if nd >= 2:
        yield ".swapaxes(0,1)", lambda x: x.swapaxes(0, 1)
        yield ".swapaxes(0,-1)", lambda x: x.swapaxes(0, -1)
        yield ".diagonal()", lambda x: x.diagonal()
    if nd >= 1:
        yield "list(iter)", lambda x: list(x)
        yield ".flat", lambda x: numpy.array(x.ravel()) if not isinstance(x, numpoly.ndpoly) else x.flat
    yield ".transpose()", lambda x: x.transpose()
    yield ".squeeze()", lambda x: x.squeeze()
    yield ".repeat(2,axis)", (lambda x: x.repeat(2, axis=0)) if nd else (lambda x: x.repeat(2))
    yield "numpy.squeeze?", None


def index_exprs(shape):
    nd = len(shape)
    per_axis = []
    for L in shape:
        opts = [0, -1, slice(None), slice(1, None), slice(None, -1), slice(None, None, 2), slice(None, None, -1)]
        if L >= 1:
            opts.append([0, L - 1])
            opts.append(numpy.array([(i % 2 == 0) for i in range(L)]))
        per_axis.append(opts)
    seen = []
    for k in range(0, nd + 1):
        for combo in itertools.product(*per_axis[:k]):
            seen.append(tuple(combo))
    for idx in seen:
        yield idx
    # Ellipsis / newaxis placements
    yield (Ellipsis,)
    yield (None,)
    yield (Ellipsis, None)
    if nd >= 1:
        yield (Ellipsis, 0)
        yield (Ellipsis, -1)
        yield (None, 0)
        yield (0, None)
        yield (Ellipsis, slice(None, None, -1))
        yield (slice(None), None)
        full_mask = numpy.arange(int(numpy.prod(shape))).reshape(shape) % 2 == 0
        yield (full_mask,)
        yield (~full_mask,)
        yield (numpy.zeros(shape, dtype=bool),)
        yield (numpy.array([0, 0, -1]),)
        yield (numpy.array([[0, -1], [-1, 0]]),)
    if nd >= 2:
        yield (numpy.array([0, -1]), numpy.array([-1, 0]))
        yield (0, Ellipsis, -1)
        yield (slice(None), numpy.array([0, 0]))
        yield (None, Ellipsis, None)


def idx_label(idx):
    def one(i):
        if isinstance(i, numpy.ndarray):
            return f"array({i.tolist()})"
        return repr(i)
    return "[" + ", ".join(one(i) for i in idx) + "]"


def unwrap(idx):
    return idx[0] if len(idx) == 1 else idx


# ---- comparison ----------------------------------------------------------------------------------
def compare_result(got, exp, names_in, dtype_in, allow_names_superset=False):
    """got: ndpoly (or list of); exp: V (or list of). returns complaint strings"""
    if isinstance(exp, (list, tuple)):
        if not isinstance(got, (list, tuple)) or len(got) != len(exp):
            return [f"expected a sequence of {len(exp)} results, got {type(got).__name__} "
                    f"of length {len(got) if hasattr(got, '__len__') else '?'}"]
        out = []
        for i, (g, e) in enumerate(zip(got, exp)):
            out += [f"[{i}] {c}" for c in compare_result(g, e, names_in, dtype_in, allow_names_superset)]
        return out
    if not isinstance(got, numpoly.ndpoly):
        return [f"result type {type(got).__name__}, expected ndpoly"]
    probs = []
    if tuple(got.shape) != tuple(exp.shape):
        return [f"shape {tuple(got.shape)} != numpy's {tuple(exp.shape)}"]
    w = wellformed(got)
    if w:
        return ["ill-formed result: " + "; ".join(w)]
    a = alpha(got)
    if a != exp:
        probs.append(f"elements differ: got {a!r} expected {exp!r}")
    if names_in is not None:
        if allow_names_superset:
            if not set(exp.names()) <= set(got.names):
                probs.append(f"names {got.names} miss used names {exp.names()}")
        elif tuple(got.names) != tuple(names_in):
            probs.append(f"names {got.names} != input names {tuple(names_in)}")
    if dtype_in is not None and got.dtype != numpy.dtype(dtype_in):
        probs.append(f"coefficient dtype {got.dtype} != {numpy.dtype(dtype_in)}")
    return probs


def outcome(f):
    try:
        return ("ok", f())
    except Exception as err:  # noqa: BLE001
        return ("exc", err)


def judge_call(R, label, fname, spelling, f_impl, f_ref, sp_tags, names, dtype, sub, allow_superset=False):
    R.tr()
    ref = outcome(f_ref)
    got = outcome(f_impl)
    tags = list(sp_tags) + [f"fn={fname}", f"spelling={spelling}"]
    if ref[0] == "exc":
        # numpy rejects these arguments on plain arrays: nothing is demanded
        R.stat("numpy_rejects")
        return
    if got[0] == "exc":
        err = got[1]
        R.fail(fname, "exception", f"{label} [{spelling}]: {type(err).__name__}: {err}", tags=tags, sub=sub)
        return
    probs = compare_result(got[1], ref[1], names, dtype, allow_superset)
    if probs:
        R.fail(fname, "wrong-value", f"{label} [{spelling}]: " + "; ".join(probs)[:420], tags=tags, sub=sub)
    else:
        R.outcome((fname, label, hash(repr(ref[1]))))


def getf(mod, fname):
    return getattr(mod, fname)


def _raws(o, depth=0):
    if isinstance(o, numpy.ndarray):
        return [numpy.ndarray.view(o, numpy.ndarray)]
    if isinstance(o, (list, tuple)) and depth < 3:
        return [r for x in o for r in _raws(x, depth + 1)]
    return []


def _analog(praw):
    item = praw.dtype.itemsize
    if not item or any(st % item for st in praw.strides):
        return None
    est = [st // item for st in praw.strides]
    lo = sum(min(0, st * (n - 1)) for st, n in zip(est, praw.shape))
    hi = sum(max(0, st * (n - 1)) for st, n in zip(est, praw.shape))
    base = numpy.arange(hi - lo + 1, dtype="i8")
    a = numpy.lib.stride_tricks.as_strided(base[-lo:], shape=praw.shape, strides=[8 * st for st in est], writeable=True)
    if not praw.flags.writeable:
        a.flags.writeable = False
    return a


def share_rule(R, label, fname, f_numpy, f_impl, p, tags, sub):
    """like numpy also in WHOSE memory the result is: where numpy hands out an independent array (tile, repeat,
    concatenate, copy, astype, flatten, fancy indexing ...) the result must not share memory with the argument - a
    caller who goes on to write to one of the two would change the other.  (Where numpy returns a view, a copy is fine.)"""
    praw = numpy.ndarray.view(p, numpy.ndarray)
    a = _analog(praw)      # plain array with the polynomial's layout (contiguity, order, strides in elements)
    if a is None:
        return
    try:
        rn = f_numpy(a)
        rp = f_impl()
    except Exception:  # noqa: BLE001
        return
    R.tr()
    if any(numpy.shares_memory(r, a) for r in _raws(rn)):
        return
    if any(numpy.shares_memory(r, praw) for r in _raws(rp)):
        R.fail(fname, "shares-memory", f"{label}: the result shares memory with the argument; numpy's result of the same call does not",
               tags=list(tags) + [f"fn={fname}", "shares-memory"], sub=sub)


# ---- cases ---------------------------------------------------------------------------------------
UNARY24 = None


def cases(tier, seed):
    from .. import produced
    return _cases(tier, seed) + produced.case_list()


def _cases(tier, seed):
    out = []
    shapes = SHAPES + ([(2, 3, 2), (3, 3), (4, 2), (2, 4), (1, 1, 1), (8,), (2, 2, 1)] if tier == "thorough" else [])
    for shape in shapes:
        for var in VARIANTS:
            if var in ("T", "F") and len(shape) < 2:
                continue
            if var in ("slice", "rev") and len(shape) < 1:
                continue
            out.append({"k": "unary", "s": list(shape), "v": var})
            out.append({"k": "index", "s": list(shape), "v": var})
    for shape in [(3,), (6,), (2, 3), (3, 3), (2, 1, 3)]:
        for var in ("canon", "rev"):
            out.append({"k": "unary", "s": list(shape), "v": var, "family": "noconst"})
            out.append({"k": "index", "s": list(shape), "v": var, "family": "noconst"})
    # many elements along an axis (blocked / chunked code paths leave remainders there)
    for shape in [(67,), (2, 65), (66, 1)]:
        out.append({"k": "unary", "s": list(shape), "v": "canon"})
        out.append({"k": "index", "s": list(shape), "v": "rev"})
    for shape in SHAPES:
        out.append({"k": "multi", "s": list(shape)})
    for shape in [(2,), (1, 3), (2, 2), (2, 1, 3)]:
        for i in range(6):
            out.append({"k": "compose", "s": list(shape), "part": i, "parts": 6})
    out.append({"k": "creation"})
    out.append({"k": "twins"})
    return out


def run_case(case, R):
    if case.get("k") == "produced":
        from .. import produced
        return produced.run(R, ID, case["i0"], case["i1"])
    k = case["k"]
    if k in ("unary", "index", "one"):
        shape = tuple(case["s"])
        var = case["v"]
        sp = tagged(shape, variant=var)
        if case.get("family") == "noconst":
            # float coefficients, no constant-term row at all, several identically-zero elements (selections that are
            # identically zero have no term to take the dtype from)
            n_ = int(numpy.prod(shape)) if shape else 1
            sp = spec(("q0", "q1"), shape, [((1, 0), [0.5 * (i % 3 == 0) * (i + 1) for i in range(n_)]), ((0, 2), [-1.5 * (i % 3 == 1) for i in range(n_)])], "f8", var)
        p = build_checked(sp)
        m = model_of(sp)
        names, dtype = p.names, p.dtype
        tags = [f"variant={var}", f"ndim={len(shape)}", "size1_axis" if 1 in shape else "no_size1_axis"]
        R.state((k, shape, var))
        if p.flags.f_contiguous and not p.flags.c_contiguous:
            # order="A"/"K" arguments look at the memory layout of the input: give the reference
            # coefficient arrays the layout of the polynomial under test
            m = m.map(numpy.asfortranarray)
        if k == "unary":
            for label, fname, g in unary_calls(shape):
                if not hasattr(numpoly, fname):
                    continue
                for spelling, mod in (("numpoly", numpoly), ("numpy", numpy)):
                    judge_call(R, f"{label} on {shape}/{var}", fname, spelling,
                               lambda: g(getf(mod, fname), p), lambda: m.map(lambda c: g(getf(numpy, fname), c)),
                               tags, names, dtype, {"k": "one", "s": list(shape), "v": var, "label": label})
                    share_rule(R, f"{label} on {shape}/{var} [{spelling}]", fname, lambda a: g(getf(numpy, fname), a), lambda: g(getf(mod, fname), p),
                               p, tags, {"k": "one", "s": list(shape), "v": var, "label": label})
            for label, g in method_calls(shape):
                if g is None:
                    continue
                judge_call(R, f"method {label} on {shape}/{var}", "method:" + label.split("(")[0], "method",
                           lambda: g(p), lambda: m.map(lambda c: g(c)), tags, names, dtype,
                           {"k": "one", "s": list(shape), "v": var, "label": "method " + label})
                share_rule(R, f"method {label} on {shape}/{var}", "method:" + label.split("(")[0], g, lambda: g(p), p, tags,
                           {"k": "one", "s": list(shape), "v": var, "label": "method " + label})
            R.sample({"input": str(p).replace("\n", " ")[:200], "variant": var, "functions": "all unary shape functions"})
        elif k == "one":
            label = case["label"]
            for lab, fname, g in unary_calls(shape):
                if lab == label:
                    for spelling, mod in (("numpoly", numpoly), ("numpy", numpy)):
                        judge_call(R, lab, fname, spelling, lambda: g(getf(mod, fname), p),
                                   lambda: m.map(lambda c: g(getf(numpy, fname), c)), tags, names, dtype, None)
                        share_rule(R, f"{lab} [{spelling}]", fname, lambda a: g(getf(numpy, fname), a), lambda: g(getf(mod, fname), p), p, tags, None)
            for lab, g in method_calls(shape):
                if g is not None and "method " + lab == label:
                    judge_call(R, lab, "method", "method", lambda: g(p), lambda: m.map(lambda c: g(c)), tags, names, dtype, None)
                    share_rule(R, lab, "method", g, lambda: g(p), p, tags, None)
            for idx in index_exprs(shape):
                if "index " + idx_label(idx) == label:
                    judge_call(R, label, "getitem", "operator", lambda: p[unwrap(idx)],
                               lambda: m.map(lambda c: c[unwrap(idx)]), tags, names, dtype, None)
        else:
            for idx in index_exprs(shape):
                judge_call(R, f"index {idx_label(idx)} on {shape}/{var}", "getitem", "operator",
                           lambda: p[unwrap(idx)], lambda: m.map(lambda c: c[unwrap(idx)]), tags, names, dtype,
                           {"k": "one", "s": list(shape), "v": var, "label": "index " + idx_label(idx)})
            R.sample({"input_shape": shape, "variant": var, "example_index": idx_label((slice(None, None, -1),))})
    elif k == "twins":
        seq = [sp for sp in space.twin_sequence() if tuple(sp["s"]) == (2,)] + [sp for _, sp in space.wide_array_specs()]
        for i, sp in enumerate(seq):
            p, m = build_checked(sp), model_of(sp)
            R.state(("twins", i))
            for label, fname, g in unary_calls((2,)):
                if not hasattr(numpoly, fname) or hash(label) % 4:
                    continue
                judge_call(R, f"{label} on twin {i} {sp['n']}", fname, "numpoly", lambda: g(getf(numpoly, fname), p),
                           lambda: m.map(lambda c: g(getf(numpy, fname), c)), ["twins"], p.names, p.dtype, None)
            for idx in ((0,), (slice(None, None, -1),), ([1, 0],)):
                judge_call(R, f"index {idx_label(idx)} on twin {i}", "getitem", "operator", lambda: p[unwrap(idx)],
                           lambda: m.map(lambda c: c[unwrap(idx)]), ["twins"], p.names, p.dtype, None)
    elif k == "multi":
        run_multi(case, R)
    elif k == "compose":
        run_compose(case, R)
    elif k == "creation":
        run_creation(case, R)
    else:
        raise KeyError(k)


def operand_sets(shape):
    """2-3 operands of the same shape with differing name and term sets"""
    a = tagged(shape, 0, ("q0", "q1"))
    b = tagged(shape, 100, ("q1", "q2"))
    c = spec(("q2", "q10"), shape, [((1, 1), 7)], "i8")
    d = tagged(shape, 50, ("q0", "q1"), variant="T" if len(shape) >= 2 else "canon")
    # the same names and the same set of monomials as `a`, but the terms STORED in another order (as monomial / symbols / direct
    # construction leave them)
    u = tagged(shape, 70, ("q0", "q1"), variant="unsorted+T" if len(shape) >= 2 else "unsorted")
    # operands of different coefficient dtypes (fractional values, so that a cast to the other operand's dtype shows)
    n_ = int(numpy.prod(shape)) if shape else 1
    fl = spec(("q0", "q1"), shape, [((1, 0), [0.5 * (i + 1) for i in range(n_)]), ((0, 0), [0.25 * (i % 3) for i in range(n_)]), ((0, 2), [-1.5 * (i % 2) for i in range(n_)])], "f8")
    cx = spec(("q1",), shape, [((1,), [(0.5 + 1j) * (i + 1) for i in range(n_)]), ((0,), [1j * (i % 2) for i in range(n_)])], "c16")
    # a sequence holding ONE operand is a sequence too (numpy joins it like any other)
    return [[a, d], [a, b], [a, u], [u, a], [a, fl], [fl, a], [fl, cx], [b], [u], [a, b, c]]


def run_multi(case, R):
    shape = tuple(case["s"])
    nd = len(shape)
    tags = [f"ndim={nd}", "multi"]
    R.state(("multi", shape))
    for sps in operand_sets(shape):
        ps = [build_checked(s) for s in sps]
        ms = [model_of(s) for s in sps]
        allnames = None
        tg = tags + ["names=" + ("same" if len({tuple(s["n"]) for s in sps}) == 1 else "differ")]
        rdt = numpy.result_type(*[numpy.dtype(s["d"]) for s in sps])
        joins = []
        for ax in range(-nd, nd):
            joins.append((f"concatenate axis={ax}", "concatenate", lambda f, xs, a=ax: f(xs, axis=a)))
        for ax in range(-nd - 1, nd + 1):
            joins.append((f"stack axis={ax}", "stack", lambda f, xs, a=ax: f(xs, axis=a)))
        for fn in ("hstack", "vstack", "dstack"):
            joins.append((fn, fn, lambda f, xs: f(xs)))
        if nd:
            joins.append(("concatenate default axis", "concatenate", lambda f, xs: f(xs)))
        joins.append(("stack default axis", "stack", lambda f, xs: f(xs)))
        joins.append(("broadcast_arrays", "broadcast_arrays", lambda f, xs: f(*xs)))
        joins.append(("atleast_2d multi", "atleast_2d", lambda f, xs: f(*xs)))
        for label, fname, g in joins:
            for spelling, mod in (("numpoly", numpoly), ("numpy", numpy)):
                judge_call(R, f"{label} of {[tuple(s['n']) for s in sps]} shape {shape}", fname, spelling,
                           lambda: g(getf(mod, fname), ps), lambda: vmap_multi(lambda cs: g(getf(numpy, fname), cs), ms),
                           tg, allnames, rdt if fname not in ("broadcast_arrays", "atleast_2d") else (rdt if len({s_["d"] for s_ in sps}) == 1 else None), None, allow_superset=True)
        # the sequence of operands in other containers: a tuple, and one polynomial array whose leading axis enumerates them
        stacked_m = vmap_multi(lambda cs: numpy.stack(cs, axis=0), ms)
        stacked_p = build_checked(spec_of_model(stacked_m, names=sorted(stacked_m.names(), key=name_index) or ["q0"]))
        for label, fname, g in joins:
            if fname in ("broadcast_arrays", "atleast_2d"):
                continue
            for spelling, mod in (("numpoly", numpoly), ("numpy", numpy)):
                judge_call(R, f"{label} of a tuple {[tuple(s['n']) for s in sps]} shape {shape}", fname, spelling,
                           lambda: g(getf(mod, fname), tuple(ps)), lambda: vmap_multi(lambda cs: g(getf(numpy, fname), cs), ms),
                           tg + ["container=tuple"], allnames, rdt, None, allow_superset=True)
                judge_call(R, f"{label} of one array {stacked_p.shape} {[tuple(s['n']) for s in sps]}", fname, spelling,
                           lambda: g(getf(mod, fname), stacked_p), lambda: stacked_m.map(lambda c: g(getf(numpy, fname), c)),
                           tg + ["container=ndpoly"], allnames, rdt, None, allow_superset=True)
        # broadcast_arrays with genuinely different shapes
        if nd >= 1:
            small = tagged(shape[-1:], 30, ("q0", "q2"))
            one = tagged((1,) * nd, 60, ("q1",) + ("q3",))
            for others in ([small], [one], [small, one]):
                xs = [ps[0]] + [build_checked(s) for s in others]
                vs = [ms[0]] + [model_of(s) for s in others]
                for spelling, mod in (("numpoly", numpoly), ("numpy", numpy)):
                    judge_call(R, f"broadcast_arrays {[v.shape for v in vs]}", "broadcast_arrays", spelling,
                               lambda: mod.broadcast_arrays(*xs),
                               lambda: [v.map(lambda c, i=i: numpy.broadcast_arrays(*[numpy.empty(w.shape) if j != i else c
                                                                                     for j, w in enumerate(vs)])[i])
                                        for i, v in enumerate(vs)],
                               tg, None, "i8" if sps[0]["d"] == "i8" else None, None, allow_superset=True)
        if len(ps) < 2:
            continue
        # where: every boolean mask for small sizes, broadcast masks otherwise
        a, b = ps[0], ps[1]
        ma, mb = ms[0], ms[1]
        n = int(numpy.prod(shape)) if shape else 1
        masks = []
        if n <= 4:
            for bits in itertools.product([False, True], repeat=n):
                masks.append(numpy.array(bits).reshape(shape))
        else:
            masks.append(numpy.arange(n).reshape(shape) % 2 == 0)
            masks.append(numpy.arange(n).reshape(shape) % 3 == 0)
        if nd >= 1:
            masks.append(numpy.arange(shape[-1]) % 2 == 0)
            masks.append(numpy.array(True))
            masks.append(numpy.zeros((1,) * nd, dtype=bool))
        for mask in masks:
            for spelling, mod in (("numpoly", numpoly), ("numpy", numpy)):
                judge_call(R, f"where mask={mask.tolist()} shape {shape}", "where", spelling,
                           lambda: mod.where(mask, a, b),
                           lambda: vmap_multi(lambda cs: numpy.where(mask, cs[0], cs[1]), [ma, mb]),
                           tg, None, rdt, None, allow_superset=True)
            judge_call(R, f"where mask, poly, number shape {shape}", "where", "numpoly",
                       lambda: numpoly.where(mask, a, 5), lambda: vmap_multi(lambda cs: numpy.where(mask, cs[0], cs[1]),
                                                                             [ma, V.const(5)]),
                       tg, None, numpy.dtype(sps[0]["d"]), None, allow_superset=True)
        if len(sps) == 3:
            break
    # choose: choices stacked along axis 0
    if nd >= 1:
        sp = tagged(shape)
        p, m = build_checked(sp), model_of(sp)
        K = shape[0]
        rest = shape[1:]
        nrest = int(numpy.prod(rest)) if rest else 1
        idxs = [numpy.array([(i + r) % K for i in range(nrest)]).reshape(rest) for r in range(min(K, 3))]
        idxs.append(numpy.array(0))
        for idx in idxs:
            for mode, idx2 in (("raise", idx), ("wrap", idx + K), ("clip", idx + K)):
                for spelling, mod in (("numpoly", numpoly), ("numpy", numpy)):
                    judge_call(R, f"choose idx={idx2.tolist()} mode={mode} choices shape {shape}", "choose", spelling,
                               lambda: mod.choose(idx2, p, mode=mode),
                               lambda: m.map(lambda c: numpy.choose(idx2, c, mode=mode)),
                               tags + [f"choices_ndim={nd}"], p.names, "i8", None)
    R.sample({"multi_operand_shape": shape})


def unary24(shape):
    """a fixed representative list of unary shape transformations used for depth-2 compositions"""
    nd = len(shape)
    n = int(numpy.prod(shape)) if shape else 1
    fs = [
        ("T", lambda f, x: x.T), ("swapaxes", lambda f, x: x.swapaxes(0, -1) if x.ndim >= 2 else x),
        ("reshape(-1)", lambda f, x: x.reshape(-1)), ("np.reshape F", lambda f, x: f.reshape(x, (-1, 1), order="F")),
        ("transpose", lambda f, x: f.transpose(x)), ("moveaxis", lambda f, x: f.moveaxis(x, 0, -1)),
        ("expand_dims", lambda f, x: f.expand_dims(x, 1)), ("atleast_2d", lambda f, x: f.atleast_2d(x)),
        ("atleast_3d", lambda f, x: f.atleast_3d(x)), ("repeat", lambda f, x: f.repeat(x, 2, axis=-1)),
        ("tile", lambda f, x: f.tile(x, (2, 1))), ("split[1]", lambda f, x: f.array_split(x, 2, axis=-1)[-1]),
        ("diag", lambda f, x: f.diag(x) if x.ndim in (1, 2) else x), ("diagonal", lambda f, x: f.diagonal(x) if x.ndim >= 2 else x),
        ("[::-1]", lambda f, x: x[::-1]), ("[..., ::2]", lambda f, x: x[..., ::2]), ("[None]", lambda f, x: x[None]),
        ("[-1]", lambda f, x: x[-1]), ("ravel", lambda f, x: x.ravel()), ("flatten F", lambda f, x: x.flatten("F")),
        ("concat self", lambda f, x: f.concatenate([x, x], axis=-1)), ("stack self", lambda f, x: f.stack([x, x], axis=1)),
        ("broadcast", lambda f, x: f.broadcast_arrays(x, x[:1])[1]), ("where", lambda f, x: f.where(numpy.arange(x.shape[-1]) % 2 == 0, x, x[..., ::-1]) if x.ndim else x),
    ]
    return fs


def run_compose(case, R):
    shape = tuple(case["s"])
    sp = tagged(shape)
    fs = unary24(shape)
    R.state(("compose", shape, case["part"]))
    tags = ["compose"]
    for i, (l1, g1) in enumerate(fs):
        if i % case["parts"] != case["part"]:
            continue
        for l2, g2 in fs:
            p = build_checked(sp)
            m = model_of(sp)

            def impl():
                return g2(numpoly, g1(numpoly, p))

            def ref():
                return m.map(lambda c: g2(numpy, g1(numpy, c)))
            judge_call(R, f"{l2}({l1}(x)) on {shape}", "compose:" + l2, "numpoly", impl, ref, tags + [f"inner={l1}"],
                       None, "i8", None, allow_superset=True)
    R.sample({"compose_shape": shape, "functions": [l for l, _ in fs]})


def run_creation(case, R):
    fills = [tagged((), 4, ("q0", "q1")), spec(("q2", "q10"), (), [((1, 2), -3), ((0, 0), 1)], "i8"),
             spec(("q0",), (), [((0,), 7)], "i8"), spec(("q1",), (), [((2,), 0.5)], "f8")]
    for fs in fills:
        fv = build_checked(fs)
        mv = model_of(fs)
        for shape in [(), (1,), (3,), (2, 2), (2, 1, 3), 4]:
            sh = (shape,) if isinstance(shape, int) else shape
            exp = mv.map(lambda c: numpy.broadcast_to(c, sh))
            for order in ("C", "F"):
                judge_call(R, f"full {shape} {order}", "full", "numpoly", lambda: numpoly.full(shape, fv, order=order),
                           lambda: exp, ["creation"], fv.names, fv.dtype, None)
            # numpy.full(shape, poly) never dispatches (creation function without like=): outside the claim
        for shape in [(), (2,), (2, 3), (1, 2, 2)]:
            if fs["d"] != "i8":
                continue  # numpy casts the fill value to the dtype of `a`; only exact (same-dtype) fills are demanded
            for var in ("canon", "T", "F"):
                if var != "canon" and len(shape) < 2:
                    continue
                like = build_checked(tagged(shape, variant=var))
                exp = mv.map(lambda c: numpy.broadcast_to(c, shape))
                for spelling, mod in (("numpoly", numpoly), ("numpy", numpy)):
                    judge_call(R, f"full_like {shape}/{var}", "full_like", spelling, lambda: mod.full_like(like, fv),
                               lambda: exp, ["creation"], fv.names, like.dtype if fs["d"] == "i8" else None, None)
                judge_call(R, f"full_like {shape}/{var} shape=(2,)", "full_like", "numpoly",
                           lambda: numpoly.full_like(like, fv, shape=(2,)), lambda: mv.map(lambda c: numpy.broadcast_to(c, (2,))),
                           ["creation"], fv.names, None, None)
        R.state(("creation", str(fs["n"])))
