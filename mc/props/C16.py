"""C16  str/repr (and sympy export) denote exactly the polynomial (E1 x display configurations).

Independent reader: the text is split structurally (array brackets, element separators), the display signs are
mapped back to ** and *, every element is parsed with Python's ast and evaluated over model indeterminates."""
import ast
import itertools
import re

import numpy

from .. import tree  # noqa: F401
import numpoly

from ..alpha import alpha, build_checked, model_of, spec
from ..model import V, mono_key, name_index, ONE, exact_scalar
from .. import space
from . import C09

ID = "C16"
CASE_BUDGET_S = 900

DISPLAY = list(itertools.product([True, False], repeat=3))      # display_graded, display_reverse, display_inverse
SIGNS = [("**", "*"), ("^", "*"), ("^", " "), ("**", "·"), ("^^", "×")]

META = {
    "rule": "0-d polynomials of U0 (154), a three-name universe incl. q10, names up to q12, coefficient variants (+-1, negative "
            "leading, float, complex incl. modulus one and negative real part, bool, large ints) and arrays of 5 shapes x 3 "
            "representations x the 8 settings of display_graded/display_reverse/display_inverse x 5 exponent/multiply sign pairs "
            "(blank multiply sign on 0-d only); str and repr are read back by an independent parser and must equal the polynomial; "
            "the printed term sequence must follow the selected monomial order; to_sympy -> polynomial for every 0-d int/float "
            "member. distinct = (polynomial, display configuration, channel).",
    "bounds": {"display_settings": 8, "sign_pairs": len(SIGNS)},
    "assumptions": ["str of arrays is parsed only for multiply/exponent signs that cannot be confused with the element separator",
                    "to_sympy is exercised under the default display signs (it evaluates str(p))"],
}


# ---- the independent reader ------------------------------------------------------------------------
class Bad(Exception):
    pass


def eval_node(node, names):
    if isinstance(node, ast.Expression):
        return eval_node(node.body, names)
    if isinstance(node, ast.BinOp):
        a, b = eval_node(node.left, names), eval_node(node.right, names)
        if isinstance(node.op, ast.Add):
            return a + b
        if isinstance(node.op, ast.Sub):
            return a - b
        if isinstance(node.op, ast.Mult):
            return a * b
        if isinstance(node.op, ast.Pow):
            if not (isinstance(b, V) and b.isconstant()):
                raise Bad("non-constant exponent")
            e = b.t.get(ONE)
            e = 0 if e is None else exact_scalar(e.item())
            if not isinstance(e, int) or e < 0:
                raise Bad(f"exponent {e}")
            return a ** e
        raise Bad(f"operator {type(node.op).__name__}")
    if isinstance(node, ast.UnaryOp):
        v = eval_node(node.operand, names)
        if isinstance(node.op, ast.USub):
            return -v
        if isinstance(node.op, ast.UAdd):
            return v
        raise Bad("unary")
    if isinstance(node, ast.Constant):
        if isinstance(node.value, (bool, int, float, complex)):
            return V.const(node.value)
        raise Bad(f"constant {node.value!r}")
    if isinstance(node, ast.Name):
        if node.id in ("True", "False"):
            return V.const(node.id == "True")
        if node.id == "inf":
            return V.const(float("inf"))      # how Python and numpy print an infinite float
        if not re.fullmatch(r"q\d+", node.id):
            raise Bad(f"name {node.id}")
        return V.var(node.id)
    raise Bad(f"node {type(node).__name__}")


def terms_in_order(node):
    """flatten the top-level +/- chain -> list of (sign, term node) in printing order"""
    if isinstance(node, ast.Expression):
        return terms_in_order(node.body)
    if isinstance(node, ast.BinOp) and isinstance(node.op, (ast.Add, ast.Sub)) and any(isinstance(x, ast.Name) and x.id != "inf" for x in ast.walk(node)):
        # (a purely numeric sum such as (-0-2j) is one parenthesised complex coefficient, not two terms)
        return terms_in_order(node.left) + [(-1 if isinstance(node.op, ast.Sub) else 1, node.right)]
    return [(1, node)]


def read_element(text, exp_sign, mul_sign):
    """element text -> (V 0-d, list of monomials in printed order)"""
    t = text
    if exp_sign != "**":
        t = t.replace(exp_sign, "**")
    if mul_sign != "*":
        t = t.replace(mul_sign, "*")
    try:
        tree_ = ast.parse(t.strip(), mode="eval")
    except SyntaxError as err:
        raise Bad(f"not an arithmetic expression: {text!r} ({err})")
    value = eval_node(tree_, None)
    monos = []
    for sign, node in terms_in_order(tree_):
        v = eval_node(node, None)
        ms = list(v.t)
        if len(ms) > 1:
            raise Bad(f"a printed term denotes several monomials: {text!r}")
        monos.append(ms[0] if ms else ONE)
    return value, monos


def split_array(text, sep):
    """'[[a b] [c d]]' -> nested lists of element strings"""
    pos = 0
    text = text.strip()

    def parse():
        nonlocal pos
        assert text[pos] == "["
        pos += 1
        items = []
        while True:
            while pos < len(text) and (text[pos].isspace() or (sep == "," and text[pos] == ",")):
                pos += 1
            if pos >= len(text):
                raise Bad("unbalanced brackets")
            if text[pos] == "]":
                pos += 1
                return items
            if text[pos] == "[":
                items.append(parse())
            else:
                start = pos
                depth = 0
                while pos < len(text):
                    ch = text[pos]
                    if ch == "(":
                        depth += 1
                    elif ch == ")":
                        depth -= 1
                    elif depth == 0 and (ch == "]" or (sep == "," and ch == ",") or (sep == " " and ch.isspace())):
                        break
                    pos += 1
                items.append(text[start:pos])
    out = parse()
    if text[pos:].strip():
        raise Bad(f"trailing text {text[pos:]!r}")
    return out


def shape_of(nested):
    if isinstance(nested, str):
        return ()
    if not nested:
        return (0,)
    return (len(nested),) + shape_of(nested[0])


def flatten(nested):
    if isinstance(nested, str):
        return [nested]
    return [x for item in nested for x in flatten(item)]


def check_text(R, op, text, m, cfg, signs, tags, label, is_repr=False):
    """text of str()/repr() of a polynomial with model m"""
    R.tr()
    dg, dr, di = cfg
    exp_sign, mul_sign = signs
    try:
        body = text
        if is_repr:
            if not (text.startswith("polynomial(") and text.endswith(")")):
                raise Bad(f"repr is not polynomial(...): {text!r}")
            body = text[len("polynomial("):-1]
        if m.shape == ():
            elems, shape = [body], ()
        else:
            nested = split_array(body, "," if is_repr else " ")
            elems, shape = flatten(nested), shape_of(nested)
        if tuple(shape) != m.shape:
            raise Bad(f"text has array shape {shape}, polynomial {m.shape}")
        want = m.elements().ravel().tolist()
        names = m.names()
        for i, (etext, w) in enumerate(zip(elems, want)):
            v, monos = read_element(etext, exp_sign, mul_sign)
            if dict(v.element(())) != dict(w):
                raise Bad(f"element {i} reads as {dict(v.element(()))}, polynomial has {dict(w)} (text {etext!r})")
            keys = [mono_key(mm, dg, dr, names) for mm in monos]
            if len(set(monos)) != len(monos):
                raise Bad(f"element {i}: a monomial is printed twice in {etext!r}")
            srt = sorted(keys, reverse=bool(di))
            if keys != srt and len(dict(w)) > 1:
                raise Bad(f"element {i}: terms {etext!r} are not in {'descending' if di else 'ascending'} "
                          f"{'graded ' if dg else ''}{'reverse ' if dr else ''}lexicographic order")
    except Bad as err:
        R.fail(op, "wrong-text", f"{label} display(graded,reverse,inverse)={cfg} signs={signs}: {err}"[:480], tags=tags)
        return
    R.outcome((op, label, cfg, signs, text[:40]))


RETAIN = [{}, {"retain_names": False}, {"retain_coefficients": True, "retain_names": False}, {"retain_coefficients": True}]


def render_and_check(R, sp, label, cfgs, sign_pairs, tags):
    m = model_of(sp)
    tiny = any(0 < abs(complex(x)) < 1e-6 for c_ in m.t.values() for x in c_.ravel().tolist())
    for ci, cfg in enumerate(cfgs):
        for si, signs in enumerate(sign_pairs):
            if signs[1] == " " and m.shape != ():
                continue
            # the other global options must not matter for the text: one of the four retain settings per (display, sign) pair, all
            # four spread over the grid
            retain = RETAIN[(ci + si) % 4]
            with numpoly.global_options(display_graded=cfg[0], display_reverse=cfg[1], display_inverse=cfg[2],
                                        display_exponent=signs[0], display_multiply=signs[1]):
                p = build_checked(sp)
                tg = tags + [f"display_graded={cfg[0]}", f"display_reverse={cfg[1]}", f"display_inverse={cfg[2]}", f"signs={signs}"] + [f"{k_}={v_}" for k_, v_ in retain.items()]
                with numpoly.global_options(**retain):
                    def suppressed_str(x):
                        with numpy.printoptions(suppress=True):
                            return str(x)

                    def precise_repr(x):
                        with numpy.printoptions(precision=12, floatmode="maxprec"):
                            return repr(x)
                    for op, f, is_repr in (("str", str, False), ("repr", repr, True), ("array_str", numpoly.array_str, False),
                                           ("numpy.array_repr", numpy.array_repr, True),
                                           # small-number suppression drops coefficients below 1e-8 only: nothing here is that small
                                           ("array_str(suppress_small=True)", lambda x: numpoly.array_str(x, suppress_small=True), False),
                                           ("array_repr(suppress_small=True)", lambda x: numpoly.array_repr(x, suppress_small=True), True),
                                           ("str under printoptions(suppress=True)", suppressed_str, False),
                                           ("repr under printoptions(precision=12)", precise_repr, True)):
                        if "suppress" in op and tiny:
                            continue     # coefficients below 1e-8 are what suppression is meant to drop
                        try:
                            text = f(p)
                        except Exception as err:  # noqa: BLE001
                            R.tr()
                            R.fail(op, "exception", f"{label} {cfg} {signs} {retain}: {type(err).__name__}: {err}", tags=tg)
                            continue
                        check_text(R, op, text, m, cfg, signs, tg, label, is_repr)


def coefficient_variants():
    names = ("q0", "q1")
    out = []
    for dt, cs in (("i8", [1, -1, 5, -7]), ("f8", [1.0, -1.0, 0.5, -2.25, 1e-3, 1.5e10]), ("?", [True, True]),
                   ("c16", [1j, -1j, 1 + 2j, -1 + 2j, -1 - 1j, 0.6 + 0.8j, -0.6 - 0.8j, 2, -3, 1, -1]),
                   ("i8", [2 ** 53 + 1, -(2 ** 62)]), ("u4", [1, 7])):
        for c1, c2 in itertools.permutations(cs, 2):
            out.append((f"{dt} {c1},{c2}", spec(names, (), [((1, 1), c1), ((0, 2), c2), ((0, 0), c1)], dt)))
            out.append((f"{dt} {c1},{c2} b", spec(names, (), [((2, 0), c2), ((0, 1), c1)], dt)))
        for c in cs:
            out.append((f"{dt} single {c}", spec(names, (), [((1, 0), c)], dt)))
            out.append((f"{dt} const {c}", spec(names, (), [((0, 0), c)], dt)))
    return out


def cases(tier, seed):
    from .. import produced
    return _cases(tier, seed) + produced.case_list()


def _cases(tier, seed):
    out = []
    n = len(space.U0())
    for i0 in range(0, n, 8):
        out.append({"k": "u0", "i0": i0, "i1": min(n, i0 + 8)})
    n3 = len(space.U2())
    for i0 in range(0, n3, 24):
        out.append({"k": "u3", "i0": i0, "i1": min(n3, i0 + 24)})
    nv = len(coefficient_variants())
    for i0 in range(0, nv, 30):
        out.append({"k": "coef", "i0": i0, "i1": min(nv, i0 + 30), "tier": tier})
    for shape in [(1,), (3,), (2, 2), (2, 1, 3), (12,)]:
        out.append({"k": "arrays", "s": list(shape)})
    out.append({"k": "names"})
    out.append({"k": "twins"})
    out.append({"k": "extra"})
    for i0 in range(0, n, 22):
        out.append({"k": "sympy", "i0": i0, "i1": min(n, i0 + 22)})
    out.append({"k": "sympy3"})
    # the FIRST display / export call of a process made under each display setting (fresh interpreter per setting)
    for ci in range(len(DISPLAY)):
        for si in range(len(SIGNS)):
            out.append({"k": "firstcall", "ci": ci, "si": si})
    return out


def run_case(case, R):
    if case.get("k") == "produced":
        from .. import produced
        return produced.run(R, ID, case["i0"], case["i1"])
    k = case["k"]
    if k == "u0":
        for i in range(case["i0"], case["i1"]):
            t = space.U0()[i]
            R.state(("u0", i))
            render_and_check(R, space.scalar_spec(("q0", "q1"), t), str(t), DISPLAY, SIGNS, ["0-d"])
            if len(t) >= 2:
                # the same polynomial with its terms STORED in another order (as direct construction leaves them)
                render_and_check(R, space.scalar_spec(("q0", "q1"), t, "i8", "unsorted"), str(t) + " stored unsorted", DISPLAY, SIGNS[:2], ["0-d", "unsorted_storage"])
        R.sample({"polynomial": str(t), "display_settings": 8, "sign_pairs": SIGNS})
    elif k == "u3":
        for i in range(case["i0"], case["i1"]):
            t = space.U2()[i]
            R.state(("u3", i))
            render_and_check(R, space.scalar_spec(("q0", "q2", "q10"), t), str(t), DISPLAY, SIGNS[:3], ["0-d", "three_names"])
            if len(t) >= 2:
                render_and_check(R, space.scalar_spec(("q0", "q2", "q10"), t, "i8", "unsorted"), str(t) + " stored unsorted", DISPLAY, SIGNS[:1], ["0-d", "three_names", "unsorted_storage"])
    elif k == "coef":
        for label, sp in coefficient_variants()[case["i0"]:case["i1"]]:
            R.state(("coef", label))
            full = case.get("tier") == "thorough"
            render_and_check(R, sp, label, DISPLAY if full else DISPLAY[::3] + [DISPLAY[1]], SIGNS if full else SIGNS[:3], ["0-d", "coef=" + sp["d"]])
    elif k == "arrays":
        shape = tuple(case["s"])
        R.state(("arrays", shape))
        for var in ("canon", "T", "zeroterm", "rev", "unsorted", "unsorted+T"):
            if var.endswith("T") and len(shape) < 2:
                continue
            render_and_check(R, C09.tagged(shape, variant=var), f"tagged{shape}/{var}", DISPLAY, [SIGNS[0], SIGNS[1], SIGNS[3]], ["array"])
        pool = [[], [((1, 0), -1)], [((0, 0), 1)], [((1, 1), 2.5), ((0, 2), -1.0)], [((2, 0), 1), ((0, 0), -3)], [((0, 1), 1), ((1, 0), -1), ((0, 0), 1)]]
        render_and_check(R, space.array_spec(("q0", "q1"), shape, space.fill(pool, shape, 0, 1), "f8"), f"float pool {shape}", DISPLAY, SIGNS[:2], ["array"])
        cpool = [[((1, 0), 1j)], [((0, 1), -1 + 2j), ((0, 0), 1)], [], [((1, 1), 0.6 + 0.8j), ((2, 0), -1)], [((0, 0), -2j)]]
        render_and_check(R, space.array_spec(("q0", "q1"), shape, space.fill(cpool, shape, 0, 1), "c16"), f"complex pool {shape}", DISPLAY[::3], SIGNS[:2], ["array", "complex"])
    elif k == "names":
        for names in (("q0", "q12"), ("q3", "q7", "q11"), ("q9", "q10"), ("q2",), ("q12",)):
            kk = len(names)
            for t in ([(tuple([1] * kk), 1), (tuple([0] * kk), -1)], [(tuple([2] + [0] * (kk - 1)), -1), (tuple([0] * (kk - 1) + [3]), 2)]):
                R.state(("names", names, str(t)))
                t = list({e: c for e, c in t}.items())
                render_and_check(R, spec(names, (), t), f"{names} {t}", DISPLAY, SIGNS[:3], ["0-d", "names"])
                render_and_check(R, spec(names, (2,), [(e, [c, -c]) for e, c in t]), f"{names} {t} array", DISPLAY[:2], SIGNS[:2], ["array", "names"])
    elif k == "extra":
        specs = [sp for _, sp in space.wide_specs()] + [sp for _, sp in space.wide_array_specs()] + space.magnitude_specs() + space.nonfinite_specs()
        for i, sp in enumerate(specs):
            R.state(("extra", i))
            render_and_check(R, sp, f"extra {i} {sp['n'][:3]} {str(sp['t'])[:60]}", [DISPLAY[0], DISPLAY[6]], SIGNS[:2], ["wide_or_magnitude"])
    elif k == "twins":
        # colliding inputs printed one after the other in one process (state shared between two prints)
        for cfg in (DISPLAY[0], DISPLAY[5]):
            for i, sp in enumerate(space.twin_sequence()):
                R.state(("twins", i, cfg))
                render_and_check(R, sp, f"twin {i} {sp['n']} {sp['t']}", [cfg], SIGNS[:1], ["twins"])
    elif k == "firstcall":
        from ..fresh import run_fresh
        cfg, signs = DISPLAY[case["ci"]], SIGNS[case["si"]]
        opts = {"display_graded": cfg[0], "display_reverse": cfg[1], "display_inverse": cfg[2], "display_exponent": signs[0], "display_multiply": signs[1]}
        body = f"""
OPTS = {opts!r}
def snap():
    p = numpoly.polynomial_from_attributes([(2, 0), (1, 1), (0, 3), (0, 0)], [3, -1, 2, -4], ("q0", "q1"))
    back = numpoly.polynomial(numpoly.to_sympy(p))
    return {{"str": str(p), "repr": repr(p), "back": bool(numpy.all(back == p)) and back.shape == (), "arr": str(numpoly.polynomial([p, 1 - p]))}}
out = []
with numpoly.global_options(**OPTS):
    out.append(snap())
out.append(snap())
with numpoly.global_options(**OPTS):
    out.append(snap())
out.append(snap())
print(json.dumps(out))
"""
        R.tr()
        R.state(("firstcall", case["ci"], case["si"]))
        st, res = run_fresh(body)
        tags = ["firstcall"] + [f"{k_}={v_}" for k_, v_ in opts.items()]
        if st != "ok":
            R.fail("to_sympy", "exception", f"first call of the process under {opts}: {res}", tags=tags)
        else:
            probs = []
            if not all(x["back"] for x in res):
                probs.append(f"polynomial(to_sympy(p)) != p in steps {[i for i, x in enumerate(res) if not x['back']]}")
            if res[0] != res[2]:
                probs.append(f"the same calls under the same options differ between the first time and later: {res[0]} vs {res[2]}")
            if res[1] != res[3]:
                probs.append(f"under the defaults: {res[1]} vs {res[3]}")
            m_ = model_of(spec(("q0", "q1"), (), [((2, 0), 3), ((1, 1), -1), ((0, 3), 2), ((0, 0), -4)]))
            for i, x in enumerate(res):
                c_, s_ = (cfg, signs) if i % 2 == 0 else ((True, False, True), ("**", "*"))
                try:
                    v_, _ = read_element(x["str"], s_[0], s_[1])
                    if v_ != m_:
                        probs.append(f"step {i}: text {x['str']!r} denotes another polynomial")
                except Exception as err:  # noqa: BLE001
                    probs.append(f"step {i}: text {x['str']!r} unreadable: {err}")
            if probs:
                R.fail("first call", "wrong-value", f"fresh process, options {opts}: " + "; ".join(probs)[:500], tags=tags)
            else:
                R.outcome(("firstcall", case["ci"], case["si"]))
    elif k == "sympy3":
        # the sympy round trip over name sets whose numeric and textual orders differ (q2 vs q10), three or four names
        for names in (("q0", "q2", "q10"), ("q2", "q10"), ("q1", "q9", "q10", "q11"), ("q3", "q12")):
            for t in space.universe(names, 2, 2, [1, -3])[1::3]:
                sp = space.scalar_spec(names, t)
                p, m = build_checked(sp), model_of(sp)
                R.tr()
                R.state(("sympy3", names, str(t)))
                try:
                    back = numpoly.polynomial(numpoly.to_sympy(p))
                except Exception as err:  # noqa: BLE001
                    R.fail("to_sympy", "exception", f"{names} {t}: {type(err).__name__}: {err}", tags=["sympy"])
                    continue
                if not isinstance(back, numpoly.ndpoly) or alpha(back) != m or back.shape != ():
                    R.fail("to_sympy", "wrong-value", f"{names} {t}: polynomial(to_sympy(p)) = {back!r}, p = {p!r}", tags=["sympy"])
    elif k == "sympy":
        for i in range(case["i0"], case["i1"]):
            t = space.U0()[i]
            for dt, scale in (("i8", 1), ("f8", 0.5), ("i8", 2 ** 53 + 1)):
                sp = space.scalar_spec(("q0", "q1"), [(e, c * scale) for e, c in t], dt)
                p, m = build_checked(sp), model_of(sp)
                R.tr()
                R.state(("sympy", i, dt, scale))
                try:
                    back = numpoly.polynomial(numpoly.to_sympy(p))
                except Exception as err:  # noqa: BLE001
                    R.fail("to_sympy", "exception", f"{t} x{scale} {dt}: {type(err).__name__}: {err}", tags=["sympy"])
                    continue
                if not isinstance(back, numpoly.ndpoly) or alpha(back) != m or back.shape != ():
                    R.fail("to_sympy", "wrong-value", f"{t} x{scale} {dt}: polynomial(to_sympy(p)) = {back!r}, p = {p!r}", tags=["sympy"])
    else:
        raise KeyError(k)
