"""C19  Leading-term queries, decomposition and the sort proxy match the polynomial (E1 x configurations)."""
import itertools

import numpy

from .. import tree  # noqa: F401
import numpoly
from numpoly.baseclass import FeatureNotSupported

from ..alpha import alpha, build_checked, model_of, spec, wellformed
from ..model import V, lead, mono_key, name_index, exact_scalar, ONE
from .. import space
from . import C09
from ..snap import recall

ID = "C19"
CASE_BUDGET_S = 900
FLAGS = [(False, False), (True, False), (False, True), (True, True)]   # (graded, reverse)

META = {
    "rule": "polynomial arrays of 6 shapes filled from pools with zero elements, equal leading terms, negative leading "
            "coefficients, elements with several terms in different indeterminates (leading term depends on the order) and many "
            "same-degree terms, over name sets (q0,q1), (q0,q1,q2), (q1,q2), (q2,q10), (q1,q3,q4), int and float, x all four "
            "(graded, reverse) flag settings (explicit arguments and through sort_graded/sort_reverse) for lead_exponent, "
            "lead_coefficient, sortable_proxy, argmax/argmin/amax/amin; isconstant, tonumpy, todict, decompose, "
            "set_dimensions for targets 1..5 (growing with non-standard names, shrinking incl. dropping every term). Oracle: "
            "leading term under the reference order in the exact model. distinct = (function, flags, array).",
    "bounds": {"shapes": 6, "flag_settings": 4, "set_dimensions_targets": [1, 2, 3, 4, 5]},
    "assumptions": ["ties of the (leading exponent, leading coefficient) pre-order may be ranked in any order by sortable_proxy"],
}

SHAPES = [(), (1,), (4,), (2, 3), (3, 1, 2), (7,)]


def pool(k):
    """element pool over k indeterminates"""
    def e(*xs):
        xs = list(xs) + [0] * k
        return tuple(xs[:k])
    p = [
        [], [(e(), 3)], [(e(), -2)], [(e(1), 1)], [(e(1), 2), (e(), -1)], [(e(1), -3), (e(), 5)],
        [(e(2), 1), (e(1), 1)], [(e(2), -1)],
    ]
    if k >= 2:
        p += [[(e(0, 1), 1)], [(e(1), 1), (e(0, 1), 1)], [(e(1), 1), (e(0, 1), -1)], [(e(1, 1), 2), (e(2), 1), (e(0, 2), 1)],
              [(e(2), -3), (e(0, 1), 4), (e(), 1)], [(e(0, 2), 1), (e(1), 1)], [(e(1), 1), (e(0, 1), 1), (e(), 7)]]
    if k >= 3:
        p += [[(e(0, 0, 1), 1)], [(e(1), 1), (e(0, 0, 1), 2)], [(e(2), -3), (e(0, 0, 1), 4), (e(), 1)], [(e(1, 1, 1), 1), (e(0, 0, 3), -1), (e(3), 1)],
              [(e(0, 1), 1), (e(0, 0, 1), 1), (e(1), 1)]]
    return p


NAMESETS = [("q0", "q1"), ("q0", "q1", "q2"), ("q1", "q2"), ("q2", "q10"), ("q1", "q3", "q4"), ("q0",)]


def arrays(tier="quick"):
    for names in NAMESETS:
        pl = pool(len(names))
        for shape in SHAPES:
            for rot, stride in ((0, 1), (3, 1), (1, 2)) + (((5, 1), (2, 3), (7, 1), (4, 5)) if tier == "thorough" else ()):
                for kind in ("i8", "f8"):
                    if kind == "f8" and (rot or shape in ((1,), (7,))):
                        continue
                    els = space.fill(pl, shape, rot, stride)
                    if kind == "f8":
                        els = [[(ex, c * 0.5) for ex, c in t] for t in els]
                    yield names, shape, rot, kind, space.array_spec(names, shape, els, kind, "T" if len(shape) >= 2 and rot == 3 else "canon")


def cases(tier, seed):
    from .. import produced
    return _cases(tier, seed) + produced.case_list()


def _cases(tier, seed):
    out = []
    items = list(arrays(tier))
    for i0 in range(0, len(items), 6):
        out.append({"k": "lead", "i0": i0, "i1": min(len(items), i0 + 6), "tier": tier})
    for i0 in range(0, len(items), 10):
        out.append({"k": "misc", "i0": i0, "i1": min(len(items), i0 + 10), "tier": tier})
    # the same arrays while the retain options are set globally (inputs built before, so they still carry unused names / zero terms)
    for i0 in range(0, len(items), 12):
        for rn, rc in ((False, False), (False, True), (True, True)):
            out.append({"k": "lead", "i0": i0, "i1": min(len(items), i0 + 12), "tier": tier, "retain": [rn, rc], "step": 3})
            out.append({"k": "misc", "i0": i0, "i1": min(len(items), i0 + 12), "tier": tier, "retain": [rn, rc], "step": 3})
    out.append({"k": "lead", "reps": True})
    out.append({"k": "misc", "reps": True})
    out.append({"k": "lead", "twins": True})
    out.append({"k": "lead", "magnitudes": True})
    out.append({"k": "lead", "wide": True})
    out.append({"k": "misc", "wide": True})
    out.append({"k": "misc", "magnitudes": True})
    out.append({"k": "misc", "twins": True})
    # every exponent up to 2100 (all code-point classes of the key characters) and tuples of the special ones
    for e0 in range(0, 2100, 150):
        out.append({"k": "expblocks", "e0": e0, "e1": e0 + 150})
    out.append({"k": "expblocks", "tuples": True})
    for i in range(len(space.dense_specs())):
        out.append({"k": "lead", "dense": i})
        out.append({"k": "misc", "dense": i})
    return out


def prekey(el, names, graded, reverse):
    """pre-order key of an element: (leading exponent key, leading coefficient); zero polynomial -> lowest exponent, 0"""
    l = lead(el, names, graded, reverse)
    if l is None:
        return (mono_key(ONE, graded, reverse, names), 0)
    return (mono_key(l[0], graded, reverse, names), l[1])


def run_expblocks(case, R):
    """leading terms, decomposition and dictionaries of monomials q0**e for every e (arrays of 50), and of two-name
    monomials over the exponents whose key characters are special (digits of other scripts, surrogates, ...)"""
    from .C20 import build_block, model_block, build_tuples, tuples_model
    if case.get("tuples"):
        dig = [0, 1, 9, 119, 120, 126, 197, 1573, 1582]
        tp = list(itertools.product(dig, repeat=2))
        coef = [(i % 5) + 1 for i in range(len(tp))]
        blocks = [(("q0", "q1"), build_tuples(("q0", "q1"), tp, coef), tuples_model(("q0", "q1"), tp, coef), f"2-tuples over {dig}")]
        # all of them as the terms of ONE polynomial too
        sp = spec(("q0", "q1"), (), [(t, c) for t, c in zip(tp, coef)])
        blocks.append((("q0", "q1"), build_checked(sp), model_of(sp), f"sum of all 2-tuples over {dig}"))
    else:
        blocks = []
        for b0 in range(case["e0"], case["e1"], 50):
            es = list(range(b0, b0 + 50))
            p, coef = build_block(es)
            blocks.append((("q0",), p, model_block(es, coef), f"q0**e for e in {b0}..{b0 + 49}"))
    for names, p, m, lab in blocks:
        R.state(("expblocks", lab))
        shape = m.shape
        flat = [dict(x) for x in m.elements().ravel().tolist()] if shape else [dict(m.elements().item())]
        tags = ["expblocks"]
        for graded, reverse in FLAGS:
            leads = [lead(el, names, graded, reverse) for el in flat]
            want_e = numpy.array([[dict(l[0]).get(n, 0) for n in names] if l else [0] * len(names) for l in leads]).reshape(shape + (len(names),))
            want_c = numpy.array([l[1] if l else 0 for l in leads]).reshape(shape)
            R.tr(2)
            try:
                got = numpy.asarray(numpoly.lead_exponent(p, graded=graded, reverse=reverse))
                if got.shape != want_e.shape or not numpy.array_equal(got, want_e):
                    R.fail("lead_exponent", "wrong-value", f"{lab} graded={graded} reverse={reverse}: {got.tolist()[:6]} != {want_e.tolist()[:6]}"[:400], tags=tags)
                got = numpy.asarray(numpoly.lead_coefficient(p, graded=graded, reverse=reverse))
                if got.shape != want_c.shape or not numpy.array_equal(got, want_c):
                    R.fail("lead_coefficient", "wrong-value", f"{lab} graded={graded} reverse={reverse}: {got.tolist()[:6]} != {want_c.tolist()[:6]}"[:400], tags=tags)
            except Exception as err:  # noqa: BLE001
                R.fail("lead_exponent", "exception", f"{lab}: {type(err).__name__}: {err}", tags=tags)
        R.tr()
        try:
            dec = numpoly.decompose(p)
            da = alpha(dec)
            total = V({}, shape)
            probs = []
            for i in range(dec.shape[0]):
                sl = da.map(lambda c: c[i])
                if len(sl.t) > 1:
                    probs.append(f"slice {i} has {len(sl.t)} monomials")
                total = total + sl
            if tuple(dec.shape[1:]) != tuple(shape) or total != m:
                probs.append(f"{dec.shape[0]} slices of shape {dec.shape[1:]} sum to another polynomial ({len(total.t)} monomials, expected {len(m.t)})")
            if probs:
                R.fail("decompose", "wrong-value", f"{lab}: " + "; ".join(probs)[:300], tags=tags)
            else:
                R.outcome(("decompose", lab))
        except Exception as err:  # noqa: BLE001
            R.fail("decompose", "exception", f"{lab}: {type(err).__name__}: {err}", tags=tags)
        R.tr()
        try:
            d = p.todict()
            t = {}
            from ..model import exact_array
            for ex, c in d.items():
                mm = frozenset((n, int(x)) for n, x in zip(p.names, ex) if x)
                c = exact_array(numpy.asarray(c))
                t[mm] = t[mm] + c if mm in t else c
            if V(t, shape) != m:
                R.fail("todict", "wrong-value", f"{lab}: {len(d)} entries denote another polynomial", tags=tags)
        except Exception as err:  # noqa: BLE001
            R.fail("todict", "exception", f"{lab}: {type(err).__name__}: {err}", tags=tags)
        R.tr()
        try:
            if bool(numpoly.isconstant(p)) != m.isconstant():
                R.fail("isconstant", "wrong-value", f"{lab}: {numpoly.isconstant(p)}", tags=tags)
        except Exception as err:  # noqa: BLE001
            R.fail("isconstant", "exception", f"{lab}: {type(err).__name__}: {err}", tags=tags)


def run_case(case, R):
    if case.get("k") == "produced":
        from .. import produced
        return produced.run(R, ID, case["i0"], case["i1"])
    if case["k"] == "expblocks":
        return run_expblocks(case, R)
    if case.get("wide"):
        items = [(tuple(sp["n"]), tuple(sp["s"]), i, sp["d"], sp) for i, (_, sp) in enumerate(space.wide_specs() + space.wide_array_specs())]
    elif "dense" in case:
        items = [(tuple(sp["n"]), tuple(sp["s"]), lab_, sp["d"], sp) for lab_, sp in space.dense_specs()[case["dense"]:case["dense"] + 1]]
    elif case.get("reps"):
        # the same arrays, and constant ones, in every storage representation (terms stored unsorted, extra zero terms, unused names, views)
        items = []
        base = list(arrays("quick"))[::7]
        consts = [(("q0", "q1"), (2,), "cancel", "i8", spec(("q0", "q1"), (2,), [((0, 1), [1, -1])])),
                  (("q0", "q1"), (2, 2), "cancel2", "i8", spec(("q0", "q1"), (2, 2), [((1, 1), [1, -1, 2, -2]), ((0, 0), [2, -2, 0, 0])])),
                  (("q0", "q1"), (3,), "const", "i8", spec(("q0", "q1"), (3,), [((0, 0), [4, 5, 6])])),
                  (("q0", "q1"), (), "const0", "f8", spec(("q0", "q1"), (), [((0, 0), 7.5)], "f8")),
                  (("q1",), (2, 2), "const2", "i8", spec(("q1",), (2, 2), [((0,), [1, -2, 0, 3])]))]
        for n_, s_, r_, k_, sp_ in base + consts:
            for var in ("canon", "unsorted", "zeroterm+unsorted", "unusedname+unsorted", "zeroterm+unsorted+T", "zeroterm+view", "bigalloc+unsorted"):
                if var.endswith("+T") and len(s_) < 2:
                    continue
                items.append((n_, s_, f"{r_}/{var}", k_, dict(sp_, v=var)))
    elif case.get("magnitudes"):
        items = [(tuple(sp["n"]), tuple(sp["s"]), i, sp["d"], sp) for i, sp in enumerate(space.magnitude_specs() + space.nonfinite_specs())]
    elif case.get("twins"):
        items = [(tuple(sp["n"]), tuple(sp["s"]), i, sp["d"], sp) for i, sp in enumerate(space.twin_sequence())]
    else:
        items = list(arrays(case.get("tier", "quick")))[case["i0"]:case["i1"]][::case.get("step", 1)]
    retain = case.get("retain")
    if retain:
        # inputs get an unused indeterminate and a zero term; they are built BEFORE the options are set
        items = [(n_, s_, r_, k_, dict(sp_, v="unusedname" if i % 2 else "zeroterm")) for i, (n_, s_, r_, k_, sp_) in enumerate(items)]
        built = [(build_checked(sp_), model_of(sp_)) for *_, sp_ in items]
        with numpoly.global_options(retain_names=retain[0], retain_coefficients=retain[1]):
            return run_items(case, R, items, built, [f"retain_names={retain[0]}", f"retain_coefficients={retain[1]}"])
    return run_items(case, R, items, None, [])


def run_items(case, R, items, built, extra_tags):
    for j, (names, shape, rot, kind, sp) in enumerate(items):
        p, m = built[j] if built else (build_checked(sp), model_of(sp))
        names = tuple(p.names)
        els = m.elements()
        flat = [dict(x) for x in els.ravel().tolist()]
        lab = f"{names} {shape} rot{rot} {kind}"
        tags = [f"names={len(names)}", f"ndim={len(shape)}"] + extra_tags
        R.state((case["k"], lab) + tuple(extra_tags))
        if case["k"] == "lead":
            for graded, reverse in FLAGS:
                tg = tags + [f"graded={graded}", f"reverse={reverse}"]
                leads = [lead(el, names, graded, reverse) for el in flat]
                want_e = numpy.array([[dict(l[0]).get(n, 0) for n in names] if l else [0] * len(names) for l in leads]).reshape(shape + (len(names),))
                want_c = numpy.array([complex(l[1]) if l else 0 for l in leads]).reshape(shape)
                for via in ("args", "options"):
                    def call(f, *a, **k):
                        if via == "args":
                            return f(*a, graded=graded, reverse=reverse, **k)
                        with numpoly.global_options(sort_graded=graded, sort_reverse=reverse):
                            return f(*a, **k)
                    if via == "options":
                        continue_lead = False
                    # lead_exponent / lead_coefficient take explicit flags only
                    if via == "args":
                        R.tr()
                        try:
                            first = numpoly.lead_exponent(p, graded=graded, reverse=reverse)
                            recall(R, "lead_exponent", lab, lambda: numpoly.lead_exponent(p, graded=graded, reverse=reverse), first, tg, {"p": p})
                            got = numpy.asarray(numpoly.lead_exponent(p, graded=graded, reverse=reverse))
                            if got.shape != want_e.shape or not numpy.array_equal(got, want_e):
                                R.fail("lead_exponent", "wrong-value", f"{lab} graded={graded} reverse={reverse}: {got.tolist()} != {want_e.tolist()}"[:400], tags=tg)
                        except Exception as err:  # noqa: BLE001
                            R.fail("lead_exponent", "exception", f"{lab}: {type(err).__name__}: {err}", tags=tg)
                        R.tr()
                        try:
                            first = numpoly.lead_coefficient(p, graded=graded, reverse=reverse)
                            recall(R, "lead_coefficient", lab, lambda: numpoly.lead_coefficient(p, graded=graded, reverse=reverse), first, tg, {"p": p})
                            got = numpy.asarray(numpoly.lead_coefficient(p, graded=graded, reverse=reverse))
                            if got.shape != want_c.shape or not numpy.array_equal(got.astype(complex), want_c):
                                R.fail("lead_coefficient", "wrong-value", f"{lab} graded={graded} reverse={reverse}: {got.tolist()} != {want_c.tolist()}"[:400], tags=tg)
                        except Exception as err:  # noqa: BLE001
                            R.fail("lead_coefficient", "exception", f"{lab}: {type(err).__name__}: {err}", tags=tg)
                    if via == "args" and not graded and not reverse:
                        # the flags left at their defaults (graded=False, reverse=False)
                        R.tr()
                        try:
                            for fname_, want_ in (("lead_exponent", want_e), ("lead_coefficient", want_c)):
                                g_ = numpy.asarray(getattr(numpoly, fname_)(p))
                                if g_.shape != want_.shape or not numpy.array_equal(g_.astype(complex) if fname_ == "lead_coefficient" else g_, want_):
                                    R.fail(fname_, "wrong-value", f"{lab} with default flags: {g_.tolist()} != {want_.tolist()}"[:400], tags=tg + ["defaults"])
                            pd_ = numpy.asarray(numpoly.sortable_proxy(p)).ravel().tolist()
                            pe_ = numpy.asarray(numpoly.sortable_proxy(p, graded=False, reverse=False)).ravel().tolist()
                            if pd_ != pe_:
                                R.fail("sortable_proxy", "wrong-value", f"{lab}: sortable_proxy(p) = {pd_} but with graded=False, reverse=False given {pe_}", tags=tg + ["defaults"])
                        except Exception as err:  # noqa: BLE001
                            R.fail("lead_exponent", "exception", f"{lab} with default flags: {type(err).__name__}: {err}", tags=tg + ["defaults"])
                    keys = [prekey(el, names, graded, reverse) for el in flat]
                    if via == "args":
                        R.tr()
                        try:
                            first = numpoly.sortable_proxy(p, graded=graded, reverse=reverse)
                            recall(R, "sortable_proxy", lab, lambda: numpoly.sortable_proxy(p, graded=graded, reverse=reverse), first, tg, {"p": p})
                            proxy = numpy.asarray(numpoly.sortable_proxy(p, graded=graded, reverse=reverse))
                            prob = None
                            if proxy.shape != tuple(shape):
                                prob = f"shape {proxy.shape}"
                            elif sorted(proxy.ravel().tolist()) != list(range(len(flat))):
                                prob = f"not a permutation of 0..{len(flat) - 1}: {proxy.ravel().tolist()}"
                            else:
                                pr = proxy.ravel().tolist()
                                for i, j in itertools.combinations(range(len(flat)), 2):
                                    if keys[i] < keys[j] and not pr[i] < pr[j] or keys[i] > keys[j] and not pr[i] > pr[j]:
                                        prob = f"elements {i},{j} ({flat[i]} vs {flat[j]}) ranked {pr[i]},{pr[j]} against the pre-order {keys[i]} vs {keys[j]}"
                                        break
                            if prob:
                                R.fail("sortable_proxy", "wrong-value", f"{lab} graded={graded} reverse={reverse}: {prob}"[:450], tags=tg)
                        except Exception as err:  # noqa: BLE001
                            R.fail("sortable_proxy", "exception", f"{lab}: {type(err).__name__}: {err}", tags=tg)
                    else:
                        # argmax/argmin/amax/amin without axis follow the global sort options
                        kmax, kmin = max(keys), min(keys)
                        with numpoly.global_options(sort_graded=graded, sort_reverse=reverse):
                            for fname, target in (("argmax", kmax), ("argmin", kmin)):
                                R.tr()
                                try:
                                    i = int(getattr(numpoly, fname)(p))
                                    if not (0 <= i < len(flat)) or keys[i] != target:
                                        R.fail(fname, "wrong-value", f"{lab} sort_graded={graded} sort_reverse={reverse}: index {i} ({flat[i] if 0 <= i < len(flat) else '?'}) is not extreme", tags=tg)
                                except Exception as err:  # noqa: BLE001
                                    R.fail(fname, "exception", f"{lab}: {type(err).__name__}: {err}", tags=tg)
                            for fname, target in (("amax", kmax), ("amin", kmin)):
                                R.tr()
                                try:
                                    got = getattr(numpoly, fname)(p)
                                    el = dict(alpha(numpoly.aspolynomial(got)).element(()))
                                    if el not in flat or prekey(el, names, graded, reverse) != target:
                                        R.fail(fname, "wrong-value", f"{lab} sort_graded={graded} sort_reverse={reverse}: {el} is not an extreme element", tags=tg)
                                except Exception as err:  # noqa: BLE001
                                    R.fail(fname, "exception", f"{lab}: {type(err).__name__}: {err}", tags=tg)
            R.sample({"array": str(p).replace("\n", " ")[:160], "flags": FLAGS})
        else:
            # isconstant / tonumpy
            const = m.isconstant()
            R.tr()
            try:
                if bool(numpoly.isconstant(p)) != const or bool(p.isconstant()) != const:
                    R.fail("isconstant", "wrong-value", f"{lab}: {numpoly.isconstant(p)} != {const}", tags=tags)
            except Exception as err:  # noqa: BLE001
                R.fail("isconstant", "exception", f"{lab}: {type(err).__name__}: {err}", tags=tags)
            R.tr()
            try:
                got = numpoly.tonumpy(p)
                if const:
                    recall(R, "tonumpy", lab, lambda: numpoly.tonumpy(p), got, tags, {"p": p})
                    got = numpoly.tonumpy(p)
                if not const:
                    R.fail("tonumpy", "no-exception", f"{lab}: non-constant polynomial converted to {got!r}", tags=tags)
                elif V.const(numpy.asarray(got)) != m:
                    R.fail("tonumpy", "wrong-value", f"{lab}: {got!r}", tags=tags)
            except FeatureNotSupported:
                if const:
                    R.fail("tonumpy", "exception", f"{lab}: FeatureNotSupported for a constant polynomial", tags=tags)
            except Exception as err:  # noqa: BLE001
                R.fail("tonumpy", "exception", f"{lab}: {type(err).__name__}: {err}", tags=tags)
            # constant sub-arrays: numeric order of the proxy
            cidx = [i for i, el in enumerate(flat) if set(el) <= {ONE}]
            if len(cidx) >= 2 and len(shape) == 1:
                sub = p[cidx]
                vals = [flat[i].get(ONE, 0) for i in cidx]
                R.tr()
                pr = numpy.asarray(numpoly.sortable_proxy(sub)).tolist()
                for i, j in itertools.combinations(range(len(vals)), 2):
                    if vals[i] < vals[j] and not pr[i] < pr[j] or vals[i] > vals[j] and not pr[i] > pr[j]:
                        R.fail("sortable_proxy", "wrong-value", f"constants {vals} ranked {pr}", tags=tags + ["constants"])
                        break
                R.tr()
                got = numpoly.tonumpy(sub)
                if numpy.asarray(got).tolist() != [complex(v).real for v in vals] and numpy.asarray(got).tolist() != vals:
                    R.fail("tonumpy", "wrong-value", f"constants {vals}: {got}", tags=tags + ["constants"])
            # todict
            R.tr()
            try:
                d = p.todict()
                t = {}
                for ex, c in d.items():
                    mm = frozenset((n, int(x)) for n, x in zip(p.names, ex) if x)
                    from ..model import exact_array
                    c = exact_array(numpy.asarray(c))
                    t[mm] = t[mm] + c if mm in t else c
                if V(t, shape) != m:
                    R.fail("todict", "wrong-value", f"{lab}: {d}", tags=tags)
            except Exception as err:  # noqa: BLE001
                R.fail("todict", "exception", f"{lab}: {type(err).__name__}: {err}", tags=tags)
            # decompose
            R.tr()
            try:
                first = numpoly.decompose(p)
                recall(R, "decompose", lab, lambda: numpoly.decompose(p), first, tags, {"p": p})
                dec = numpoly.decompose(p)
                da = alpha(dec)
                probs = []
                if tuple(dec.shape[1:]) != tuple(shape):
                    probs.append(f"shape {dec.shape}")
                else:
                    total = V({}, shape)
                    for i in range(dec.shape[0]):
                        sl = da.map(lambda c: c[i])
                        if len(sl.t) > 1:
                            probs.append(f"slice {i} has {len(sl.t)} monomials")
                        total = total + sl
                    if total != m:
                        probs.append(f"slices sum to {total!r}")
                if probs:
                    R.fail("decompose", "wrong-value", f"{lab}: " + "; ".join(probs)[:300], tags=tags)
            except Exception as err:  # noqa: BLE001
                R.fail("decompose", "exception", f"{lab}: {type(err).__name__}: {err}", tags=tags)
            # set_dimensions
            D = len(names)
            for target in (1, 2, 3, 4, 5):
                R.tr()
                tg = tags + [f"target={target}", "grow" if target > D else "shrink" if target < D else "same"]
                try:
                    got = numpoly.set_dimensions(p, target)
                except Exception as err:  # noqa: BLE001
                    R.fail("set_dimensions", "exception", f"{lab} -> {target}: {type(err).__name__}: {err}", tags=tg)
                    continue
                probs = wellformed(got) if isinstance(got, numpoly.ndpoly) else [f"type {type(got).__name__}"]
                if not probs:
                    if len(got.names) != target:
                        probs.append(f"{len(got.names)} names {got.names} for target {target}")
                    if target >= D:
                        exp = m
                        if not set(names) <= set(got.names):
                            probs.append(f"names {got.names} lost some of {names}")
                    else:
                        kept = names[:target]
                        exp = V({mm: c for mm, c in m.t.items() if all(n in kept for n, _ in mm)}, shape)
                        if tuple(got.names) != tuple(kept):
                            probs.append(f"names {got.names} != {kept}")
                    if tuple(got.shape) != tuple(shape):
                        probs.append(f"shape {got.shape}")
                    elif alpha(got) != exp:
                        probs.append(f"value {alpha(got)!r} != {exp!r}")
                if probs:
                    R.fail("set_dimensions", "wrong-value", f"{lab} -> {target}: " + "; ".join(probs)[:400], tags=tg)
                else:
                    R.outcome(("set_dimensions", lab, target))
