"""C13  Pickle, copy and text save/load round-trip polynomial arrays (E1)."""
import copy
import io
import itertools
import os
import pathlib
import pickle
import shutil
import tempfile

import numpy

from .. import tree  # noqa: F401
import numpoly

from ..alpha import alpha, build_checked, model_of, spec, wellformed
from ..model import V
from .. import space

ID = "C13"
CASE_BUDGET_S = 600

SHAPES = [(), (1,), (3,), (2, 2), (1, 1, 2), (2, 1, 3)]
VARIANTS = ["canon", "T", "slice", "zeroterm", "unusedname", "F", "unsorted", "rev", "readonly"]

META = {
    "rule": "polynomials of 6 shapes (0-d, size-1, multi-dimensional) x 5 term structures (single term .. 5 terms, constants) x "
            "3 name sets (incl. q10) x int/float/complex x 7 representations (views, Fortran order, redundant zero term, "
            "unused name) through pickle protocols 0-5, copy.copy, copy.deepcopy, .copy(); savetxt x fmt {default,%.6e,%g,%d} "
            "x delimiter x header x comments x target {StringIO, str path, pathlib.Path} x spelling {numpoly, numpy} -> "
            "numpoly.loadtxt with matching arguments; header-less files. distinct = (polynomial, representation, channel).",
    "bounds": {"shapes": len(SHAPES), "variants": VARIANTS, "protocols": 6},
    "assumptions": ["exponent rows are compared exactly unless the input carries a redundant all-zero term (which cleaning may drop)",
                    "text values compared within the precision of the format; int coefficients come back as floats"],
}

NAMESETS = [("q0",), ("q0", "q1"), ("q2", "q4", "q10")]


def polys(shape, names, kind):
    """term structures: list of term lists per element pool"""
    k = len(names)
    n = int(numpy.prod(shape)) if shape else 1

    def e(*xs):
        xs = list(xs) + [0] * k
        return tuple(xs[:k])
    c = {"int": [1, -2, 3, 5, -1, 4, 7], "float": [0.5, -1.5, 2.25, 1.0, -0.125, 3.5, 0.75],
         "complex": [1j, -1 + 2j, 0.5 - 0.5j, 2, 1 + 1j, -3j, 1.5]}[kind]
    dt = {"int": "i8", "float": "f8", "complex": "c16"}[kind]

    def col(off):
        return [c[(i + off) % len(c)] for i in range(n)]
    structures = {
        "constant": [(e(), col(0))],
        "single-term": [(e(2, 1), col(1))],
        "two-terms": [(e(), col(0)), (e(1), col(2))],
        "partly-zero": [(e(), [x if i % 2 else 0 for i, x in enumerate(col(0))]), (e(0, 2) if k > 1 else e(3), [0 if i % 2 else x for i, x in enumerate(col(3))])],
        "five-terms": [(e(), col(0)), (e(1), col(1)), (e(0, 1) if k > 1 else e(2), col(2)), (e(2, 3) if k > 1 else e(5), col(3)),
                       (e(0, 0, 1) if k > 2 else e(7), col(4))],
    }
    return {label: (terms, dt) for label, terms in structures.items()}


def all_inputs():
    for shape in SHAPES:
        for names in NAMESETS:
            for kind in ("int", "float", "complex"):
                for label, (terms, dt) in polys(shape, names, kind).items():
                    for var in VARIANTS:
                        if var in ("T", "F") and len(shape) < 2:
                            continue
                        if var in ("slice", "rev") and not shape:
                            continue
                        yield shape, names, kind, label, var, spec(names, shape, terms, dt, var)


def cases(tier, seed):
    from .. import produced
    return _cases(tier, seed) + produced.case_list()


def _cases(tier, seed):
    out = []
    inputs = list(all_inputs())
    for i0 in range(0, len(inputs), 40):
        out.append({"k": "pickle", "i0": i0, "i1": min(len(inputs), i0 + 40)})
    tinputs = [x for x in inputs if x[2] != "complex"]
    for i0 in range(0, len(tinputs), 12):
        out.append({"k": "text", "i0": i0, "i1": min(len(tinputs), i0 + 12), "tier": tier})
    out.append({"k": "plain"})
    out.append({"k": "extra"})
    out.append({"k": "bigints"})
    return out


def same_exact(R, label, op, p, q, sp, tags, redundant):
    probs = []
    if not isinstance(q, numpoly.ndpoly):
        probs.append(f"result is {type(q).__name__}")
    else:
        w = wellformed(q)
        if w:
            probs.append(f"ill-formed: {w}")
        else:
            if tuple(q.shape) != tuple(p.shape):
                probs.append(f"shape {q.shape} != {p.shape}")
            if q.dtype != p.dtype:
                probs.append(f"dtype {q.dtype} != {p.dtype}")
            if tuple(q.names) != tuple(p.names):
                probs.append(f"names {q.names} != {p.names}")
            if not probs and alpha(q) != model_of(sp):
                probs.append(f"value {alpha(q)!r} != {model_of(sp)!r}")
            if not probs and not redundant:
                if sorted(map(tuple, q.exponents.tolist())) != sorted(map(tuple, p.exponents.tolist())):
                    probs.append(f"exponents {q.exponents.tolist()} != {p.exponents.tolist()}")
    if probs:
        R.fail(op, "wrong-value", f"{label}: " + "; ".join(probs)[:400], tags=tags)
    else:
        R.outcome((op, label))


def run_case(case, R):
    if case.get("k") == "produced":
        from .. import produced
        return produced.run(R, ID, case["i0"], case["i1"])
    k = case["k"]
    if k == "pickle":
        inputs = list(all_inputs())[case["i0"]:case["i1"]]
        for shape, names, kind, label, var, sp in inputs:
            p = build_checked(sp)
            redundant = var == "zeroterm" or any(not numpy.any(numpy.asarray(c)) and any(e) for e, c in zip(p.exponents, p.coefficients))
            tags = [f"variant={var}", f"kind={kind}", f"struct={label}", f"ndim={len(shape)}"]
            lab = f"{label} {kind} {names} {shape}/{var}"
            R.state(("pickle", lab))
            for proto in range(0, pickle.HIGHEST_PROTOCOL + 1):
                R.tr()
                try:
                    q = pickle.loads(pickle.dumps(p, protocol=proto))
                except Exception as err:  # noqa: BLE001
                    R.fail("pickle", "exception", f"{lab} protocol {proto}: {type(err).__name__}: {err}", tags=tags)
                    continue
                same_exact(R, f"{lab} protocol {proto}", "pickle", p, q, sp, tags, redundant)
            for op, f in (("copy.copy", copy.copy), ("copy.deepcopy", copy.deepcopy), (".copy()", lambda x: x.copy())):
                R.tr()
                try:
                    q = f(p)
                except Exception as err:  # noqa: BLE001
                    R.fail(op, "exception", f"{lab}: {type(err).__name__}: {err}", tags=tags)
                    continue
                same_exact(R, lab, op, p, q, sp, tags, redundant)
        R.sample({"pickle_input": lab})
    elif k == "text":
        inputs = [x for x in all_inputs() if x[2] != "complex"][case["i0"]:case["i1"]]
        scratch = tempfile.mkdtemp(prefix="numpoly-verif-txt-", dir=os.environ.get("TMPDIR", "/var/tmp"))
        try:
            for shape, names, kind, label, var, sp in inputs:
                p = build_checked(sp)
                m = model_of(sp)
                lab = f"{label} {kind} {names} {shape}/{var}"
                R.state(("text", lab))
                fmts = ["%.18e", "%.6e", "%g"] + (["%d"] if kind == "int" else [])
                combos = list(itertools.product(fmts, [" ", ","], [None, "user text"], ["# ", "% "],
                                                ["stringio", "path", "pathlib", "bytesio", "stringio@offset", "bytesio@offset"], ["numpoly", "numpy", "numpoly-kw", "numpy-kw"]))
                # every option value with every other pairwise is overkill per input: full product on the first input
                # of the block, the diagonal slices on the others (still every value of every option per input)
                if case.get("tier") != "thorough" and (case["i0"] + inputs.index((shape, names, kind, label, var, sp))) % 6:
                    combos = [c for i, c in enumerate(combos) if i % 7 == 0]
                for fmt, delim, header, comments, target, spelling in combos:
                    R.tr()
                    tags = [f"variant={var}", f"struct={label}", f"ndim={len(shape)}", f"fmt={fmt}", f"target={target}", f"spelling={spelling}",
                            "size1" if int(numpy.prod(shape)) == 1 else "size>1"]
                    kw = {"fmt": fmt, "delimiter": delim, "comments": comments}
                    if header is not None:
                        kw["header"] = header
                    save_ = numpoly.savetxt if spelling.startswith("numpoly") else numpy.savetxt
                    # "-kw": every argument by keyword (fname=..., X=...), also for the loader
                    save = save_ if not spelling.endswith("-kw") else (lambda f_, x_, **k_: save_(fname=f_, X=x_, **k_))
                    load = numpoly.loadtxt if not spelling.endswith("-kw") else (lambda f_, **k_: numpoly.loadtxt(fname=f_, **k_))
                    try:
                        if target in ("stringio", "bytesio"):
                            f = io.StringIO() if target == "stringio" else io.BytesIO()
                            save(f, p, **kw)
                            f.seek(0)
                            src = f
                        elif target.endswith("@offset"):
                            # the array is the second block of one handle; reading starts where the block starts
                            f = io.StringIO() if target.startswith("stringio") else io.BytesIO()
                            numpy.savetxt(f, numpy.array([[9.0, 8.0, 7.0]] * (int(numpy.prod(shape)) if shape else 1)), header="another block")
                            start = f.tell()
                            save(f, p, **kw)
                            f.seek(start)
                            src = f
                        else:
                            path = os.path.join(scratch, "p.txt")
                            save(path if target == "path" else pathlib.Path(path), p, **kw)
                            src = path if target == "path" else pathlib.Path(path)
                        q = load(src, comments=comments, delimiter=None if delim == " " else delim,
                                            skiprows=1 if header is not None else 0)
                    except Exception as err:  # noqa: BLE001
                        R.fail("savetxt/loadtxt", "exception", f"{lab} {kw} {target} {spelling}: {type(err).__name__}: {err}", tags=tags)
                        continue
                    probs = []
                    if not isinstance(q, numpoly.ndpoly):
                        probs.append(f"loaded a {type(q).__name__}")
                    elif tuple(q.shape) != tuple(shape):
                        probs.append(f"shape {q.shape} != {shape}")
                    elif tuple(q.names) != tuple(p.names):
                        probs.append(f"names {q.names} != {p.names}")
                    elif wellformed(q):
                        probs.append(f"ill-formed {wellformed(q)}")
                    else:
                        tol = 1e-15 if fmt == "%.18e" else 1e-5
                        if not alpha(q).close(m, rtol=tol, atol=tol):
                            probs.append(f"value {alpha(q)!r} != {m!r}")
                    if probs:
                        R.fail("savetxt/loadtxt", "wrong-value", f"{lab} {kw} {target} {spelling}: " + "; ".join(probs)[:300], tags=tags)
                    else:
                        R.outcome(("text", lab, fmt, delim, header, comments, target, spelling))
            R.sample({"text_input": lab, "options": "fmt x delimiter x header x comments x target x spelling"})
        finally:
            shutil.rmtree(scratch, ignore_errors=True)
    elif k == "extra":
        specs = [sp for _, sp in space.wide_specs()] + [sp for _, sp in space.wide_array_specs()] + space.magnitude_specs()
        specs += space.nonfinite_specs()
        ndense = len(specs)
        specs += [sp for _, sp in space.dense_specs()] + [sp for _, sp in space.long_array_specs()]
        for i, sp in enumerate(specs):
            p = build_checked(sp)
            redundant = any(not numpy.any(numpy.asarray(c)) and any(e) for e, c in zip(p.exponents, p.coefficients))
            R.state(("extra", i))
            for proto in (0, 2, pickle.HIGHEST_PROTOCOL):
                R.tr()
                try:
                    q = pickle.loads(pickle.dumps(p, protocol=proto))
                except Exception as err:  # noqa: BLE001
                    R.fail("pickle", "exception", f"extra {i} {sp['n'][:3]}..: {type(err).__name__}: {err}", tags=["wide_or_magnitude"])
                    continue
                same_exact(R, f"extra {i} protocol {proto}", "pickle", p, q, sp, ["wide_or_magnitude"], redundant)
            for op, f in (("copy.deepcopy", copy.deepcopy), (".copy()", lambda x: x.copy())):
                R.tr()
                same_exact(R, f"extra {i}", op, p, f(p), sp, ["wide_or_magnitude"], redundant)
            if (sp["d"] == "f8" or i >= ndense) and max(max(e) for e, _ in sp["t"]) < 60:
                for target in ("StringIO", "BytesIO", "path"):
                    R.tr()
                    scratch = tempfile.mkdtemp(prefix="c13x-") if target == "path" else None
                    try:
                        if target == "path":
                            f = os.path.join(scratch, "p.txt")
                            numpoly.savetxt(f, p)
                            q = numpoly.loadtxt(f)
                        else:
                            f = io.StringIO() if target == "StringIO" else io.BytesIO()
                            numpoly.savetxt(f, p)
                            f.seek(0)
                            q = numpoly.loadtxt(f)
                    except Exception as err:  # noqa: BLE001
                        R.fail("savetxt/loadtxt", "exception", f"extra {i} {str(sp['t'])[:80]} via {target}: {type(err).__name__}: {str(err)[:200]}", tags=["wide_or_magnitude"])
                        continue
                    finally:
                        if scratch:
                            shutil.rmtree(scratch, ignore_errors=True)
                    if not isinstance(q, numpoly.ndpoly) or tuple(q.shape) != tuple(p.shape) or alpha(q) != model_of(sp):
                        R.fail("savetxt/loadtxt", "wrong-value", f"extra {i} {str(sp['t'])[:80]} via {target}: loaded {str(q)[:200]}", tags=["wide_or_magnitude"])
    elif k == "bigints":
        # integer coefficients beyond 2**53 written with an integer format and read back as integers: exact
        vals = [2 ** 53 + 1, -(2 ** 53) - 1, 2 ** 62 + 3, 2 ** 63 - 1, -(2 ** 63) + 1, 123456789012345678, 7]
        for shape in [(), (3,), (2, 2)]:
            n = int(numpy.prod(shape)) if shape else 1
            for rot in range(3):
                cols = [[vals[(rot + i + 3 * j) % len(vals)] for i in range(n)] for j in range(3)]
                sp = spec(("q0", "q2"), shape, [((0, 0), cols[0]), ((1, 0), cols[1]), ((2, 3), cols[2])], "i8")
                p, m = build_checked(sp), model_of(sp)
                R.state(("bigints", shape, rot))
                for target in ("StringIO", "path"):
                    for spelling, save in (("numpoly", numpoly.savetxt), ("numpy", numpy.savetxt)):
                        R.tr()
                        scratch = tempfile.mkdtemp(prefix="c13b-") if target == "path" else None
                        try:
                            if target == "path":
                                f = os.path.join(scratch, "p.txt")
                                save(f, p, fmt="%d")
                                q = numpoly.loadtxt(f, dtype=int)
                            else:
                                f = io.StringIO()
                                save(f, p, fmt="%d")
                                f.seek(0)
                                q = numpoly.loadtxt(f, dtype=int)
                        except Exception as err:  # noqa: BLE001
                            R.fail("savetxt/loadtxt", "exception", f"big integers {cols} fmt=%d dtype=int via {target}/{spelling}: {type(err).__name__}: {err}", tags=["bigints"])
                            continue
                        finally:
                            if scratch:
                                shutil.rmtree(scratch, ignore_errors=True)
                        if not isinstance(q, numpoly.ndpoly) or tuple(q.shape) != shape or q.dtype.kind != "i" or alpha(q) != m or tuple(q.names) != ("q0", "q2"):
                            R.fail("savetxt/loadtxt", "wrong-value", f"big integers {cols} fmt=%d dtype=int via {target}/{spelling}: loaded {str(q)[:200]} ({getattr(q, 'dtype', None)})", tags=["bigints"])
                        else:
                            R.outcome(("bigints", shape, rot, target, spelling))
    elif k == "plain":
        # a file without the numpoly header loads as a plain array: header line x delimiter x target x loader keywords
        scratch = tempfile.mkdtemp(prefix="c13p-")
        try:
            for arr in (numpy.arange(6.0).reshape(2, 3), numpy.array([1.5, 2.5]), numpy.array([[7.0]]), numpy.arange(8.0).reshape(4, 2), numpy.array(3.0)):
                for delim in (" ", ","):
                    for header in ("just a comment", "", "numpoly is mentioned but this is no header", "names:q0 keys:; shape:2"):
                        for target in ("StringIO", "BytesIO", "path", "Path"):
                            for kw in ({}, {"skiprows": 1}, {"ndmin": 2}, {"unpack": True}, {"max_rows": 1}, {"usecols": (0,)}):
                                if arr.ndim == 0 and kw:
                                    continue
                                R.tr()
                                f = io.StringIO()
                                numpy.savetxt(f, numpy.atleast_1d(arr), delimiter=delim, header=header)
                                text = f.getvalue()
                                lab = f"plain {arr.shape} header={header!r} delimiter={delim!r} {target} {kw}"
                                if target in ("path", "Path"):
                                    path = os.path.join(scratch, "plain.txt")
                                    with open(path, "w") as dst:
                                        dst.write(text)
                                    src = path if target == "path" else pathlib.Path(path)
                                else:
                                    src = io.StringIO(text) if target == "StringIO" else io.BytesIO(text.encode())
                                dl = None if delim == " " else delim
                                try:
                                    want = numpy.loadtxt(io.StringIO(text), delimiter=dl, **kw)
                                except Exception:  # noqa: BLE001
                                    R.stat("numpy_rejects")
                                    continue
                                try:
                                    got = numpoly.loadtxt(src, delimiter=dl, **kw)
                                except Exception as err:  # noqa: BLE001
                                    R.fail("loadtxt", "exception", f"{lab}: {type(err).__name__}: {err}", tags=["plain"])
                                    continue
                                if isinstance(got, numpoly.ndpoly) or not isinstance(got, numpy.ndarray) or got.shape != want.shape or not (got == want).all():
                                    R.fail("loadtxt", "wrong-value", f"{lab}: loaded as {type(got).__name__} {got!r}, numpy.loadtxt gives {want!r}"[:400], tags=["plain"])
                                else:
                                    R.outcome(("plain", lab))
                    R.state(("plain", arr.shape, delim))
        finally:
            shutil.rmtree(scratch, ignore_errors=True)
    else:
        raise KeyError(k)
