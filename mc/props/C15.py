"""C15  Option settings never change the mathematical result (E1 x 2**8 configurations)."""
import itertools
import pickle

import numpy

from .. import tree  # noqa: F401
import numpoly

from ..alpha import alpha, build_checked, model_of, spec, wellformed
from ..model import V
from .. import space
from . import C09

ID = "C15"
CASE_BUDGET_S = 900

BOOL_OPTS = ["retain_names", "retain_coefficients", "sort_graded", "sort_reverse", "display_graded", "display_reverse",
             "display_inverse", "force_number_suffix"]
SORT = ("sort_graded", "sort_reverse")
DISP = ("display_graded", "display_reverse", "display_inverse")

META = {
    "rule": "all 2**8 settings of the eight boolean options (retain_names, retain_coefficients, sort_*, display_*, "
            "force_number_suffix; thorough: x 2 alternative exponent/multiply strings) x a catalogue of ~75 operations "
            "(construction from every input kind, + - * **, negation, derivative / gradient / hessian, evaluation full / partial "
            "/ polynomial-valued, indexing, the four alignment functions, pickle, copy, joins, reductions, where, decompose, "
            "set_dimensions, lead_*, comparisons, str; division under the 2**5 settings of the retain, sort and display_graded options) x 9 inputs (8 operand pairs) with cancelling "
            "terms and names that become unused (three names incl. q10). Oracle: the value under the shipped defaults is checked "
            "against the exact model; under every other configuration the operation must not fail and must return the same "
            "value, shape and dtype (ordering-based results may depend on the two sort options only, str on the display options "
            "only). distinct = (operation, input, configuration).",
    "bounds": lambda tier: {"configurations": 256 * (3 if tier == "thorough" else 1), "operations": len(catalogue())},
    "assumptions": ["results are compared as mathematical values (alpha), so dropped/kept zero terms and unused names are free"],
}


def inputs():
    n3 = ("q0", "q1", "q2")
    out = []
    out.append(("a0", spec(n3, (), [((1, 0, 0), 1), ((0, 1, 1), 1)])))                      # q0 + q1*q2
    out.append(("b0", spec(n3, (), [((0, 1, 1), -1), ((0, 0, 0), 3)])))                     # -q1*q2 + 3  (a0+b0 cancels q1,q2)
    out.append(("c1", spec(("q0", "q1"), (2,), [((2, 0), [1, 0]), ((0, 1), [-1, 1])])))      # [q0**2-q1, q1]
    out.append(("d0", spec(("q0",), (), [((0,), 4)])))                                     # constant
    out.append(("e2", C09.tagged((2, 2), 0, ("q2", "q10"))))
    out.append(("f1", spec(("q0", "q2", "q10"), (3,), [((1, 0, 0), [1.5, 0, 0]), ((0, 0, 2), [0, -0.5, 0]), ((0, 1, 0), [0, 0, 2.0])], "f8")))
    # names that are not in numeric order (only direct construction gives these), narrow / bool dtypes with a zero element
    out.append(("g0", spec(("q10", "q2"), (), [((1, 2), 1), ((0, 1), 3)])))                  # q10*q2**2 + 3*q2
    out.append(("h1", spec(("q0", "q1"), (3,), [((1, 0), [1, 0, 0]), ((0, 2), [1, 0, 2])], "i1")))   # [q0+q1**2, 0, 2*q1**2] int8, no constant term
    out.append(("i1", spec(("q1", "q0"), (3,), [((1, 0), [True, False, False]), ((1, 1), [False, False, True])], "?")))
    return out


INDEPENDENT = set()


def _uses_args(g):
    """does the lambda read its parameters x / y at all?"""
    import dis
    return any(ins.opname in ("LOAD_FAST", "LOAD_FAST_CHECK", "LOAD_DEREF", "LOAD_FAST_AND_CLEAR") and ins.argval in ("x", "y") for ins in dis.get_instructions(g))


def catalogue():
    """(label, kind, g(x, y)) ; kind in value | ordering | text ; x, y built polynomials"""
    q = lambda n: numpoly.symbols(n)  # noqa: E731
    c = []

    def add(label, g, kind="value", retain_default_only=False):
        c.append((label, kind, g, retain_default_only))
        # operations that do not look at their operands are run with the first operand pair only
        if g.__code__.co_names and not ({"x", "y"} & set(g.__code__.co_varnames[:2]) and _uses_args(g)):
            INDEPENDENT.add(label)
    add("x+y", lambda x, y: x + y), add("x-y", lambda x, y: x - y), add("x*y", lambda x, y: x * y), add("-x", lambda x, y: -x)
    add("x**2", lambda x, y: x ** 2), add("x-x", lambda x, y: x - x), add("x*0", lambda x, y: x * 0), add("(x+y)-y", lambda x, y: (x + y) - y)
    add("x+1.5", lambda x, y: x + 1.5), add("2*x", lambda x, y: 2 * x), add("x**0", lambda x, y: x ** 0)
    add("polynomial(x)", lambda x, y: numpoly.polynomial(x)), add("aspolynomial(x)", lambda x, y: numpoly.aspolynomial(x))
    add("polynomial(list)", lambda x, y: numpoly.polynomial([x, x]) if x.ndim < 2 else numpoly.polynomial(list(x)))
    add("polynomial(dict)", lambda x, y: numpoly.polynomial(x.todict(), names=x.names))
    add("polynomial({(0,1):1})", lambda x, y: numpoly.polynomial({(0, 1): 1, (2, 0): -2}))
    add("polynomial({(0,1,0):[1,2]})", lambda x, y: numpoly.polynomial({(0, 1, 0): [1, 2]}))
    # names handed over as ONE string (a prefix that is numbered, or a complete name), as a list, as indeterminants
    add("polynomial(dict1, names='q')", lambda x, y: numpoly.polynomial({(1,): 2, (0,): 1}, names="q"))
    add("polynomial(dict1, names='q4')", lambda x, y: numpoly.polynomial({(2,): 2, (0,): 1}, names="q4"))
    add("polynomial(dict2, names='q')", lambda x, y: numpoly.polynomial({(0, 1): 1, (2, 0): -2}, names="q"))
    add("polynomial(dict3, names='q')", lambda x, y: numpoly.polynomial({(0, 1, 0): [1, 2], (1, 0, 2): [0, 3]}, names="q"))
    add("polynomial(dict2, names=list)", lambda x, y: numpoly.polynomial({(0, 1): 1, (2, 0): -2}, names=["q3", "q7"]))
    add("from_attributes(names='q')", lambda x, y: numpoly.polynomial_from_attributes([(0, 1), (2, 0)], [1, 2], "q"))
    add("from_attributes 1 name 'q'", lambda x, y: numpoly.polynomial_from_attributes([(1,), (3,)], [1, 2], "q"))
    add("ndpoly.from_attributes(names='q')", lambda x, y: numpoly.ndpoly.from_attributes([(0, 1), (2, 0)], [1, 2], "q"))
    add("aspolynomial(x, names=x.names)", lambda x, y: numpoly.aspolynomial(x, names=x.names))
    add("polynomial(x, names=x.indeterminants)", lambda x, y: numpoly.polynomial(x, names=x.indeterminants))
    add("symbols('q:3')", lambda x, y: numpoly.symbols("q:3")), add("symbols('q')", lambda x, y: numpoly.symbols("q"))
    add("variable(1)", lambda x, y: numpoly.variable(1)), add("monomial(3, dimensions='q')", lambda x, y: numpoly.monomial(3, dimensions="q"))
    # constants whose zero terms survive under retain_coefficients=True, in the order the caller listed the terms
    add("tonumpy(constant dict)", lambda x, y: numpy.asarray(numpoly.tonumpy(numpoly.polynomial({(1, 0): [0, 0], (0, 0): [3, 2], (0, 2): [0, 0]}))))
    add("tonumpy(from_attributes constant)", lambda x, y: numpy.asarray(numpoly.tonumpy(numpoly.polynomial_from_attributes([(2,), (0,), (1,)], [[0, 0, 0], [4, 5, 6], [0, 0, 0]]))))
    add("tonumpy(x - x + 3)", lambda x, y: numpy.asarray(numpoly.tonumpy(x - x + 3)))
    add("2 ** constant", lambda x, y: numpoly.polynomial(2) ** numpoly.polynomial({(1,): 0, (0,): 3}))
    add("isconstant", lambda x, y: (bool(numpoly.isconstant(x - x)), bool(numpoly.isconstant(x)), bool(numpoly.isconstant(numpoly.polynomial({(1,): 0, (0,): 3})))))
    add("from_attributes(names=None)", lambda x, y: numpoly.polynomial_from_attributes([(0, 1), (0, 2)], [1, 2]))
    add("from_attributes", lambda x, y: numpoly.polynomial_from_attributes(x.exponents, x.coefficients, x.names))
    add("polynomial(values)", lambda x, y: numpoly.polynomial(x.values, names=x.names))
    add("polynomial(ndarray)", lambda x, y: numpoly.polynomial(numpy.array([[1, 0], [0, 2]])))
    add("polynomial(number)", lambda x, y: numpoly.polynomial(3.5))
    add("variable(3)", lambda x, y: numpoly.variable(3)), add("symbols", lambda x, y: numpoly.symbols("q1 q3"))
    add("monomial", lambda x, y: numpoly.monomial(3, dimensions=2), "ordering")
    add("derivative name", lambda x, y: numpoly.derivative(x, x.names[0])), add("derivative idx", lambda x, y: numpoly.derivative(x, len(x.names) - 1))
    add("derivative 2 idx", lambda x, y: numpoly.derivative(x, len(x.names) - 1, 0))
    add("derivative 2 names", lambda x, y: numpoly.derivative(x, x.names[0], x.names[-1]))
    add("derivative indet", lambda x, y: numpoly.derivative(x, x.indeterminants[-1]))
    add("gradient", lambda x, y: numpoly.gradient(x)), add("hessian", lambda x, y: numpoly.hessian(x))
    add("call full", lambda x, y: numpoly.polynomial(x(*range(2, 2 + len(x.names)))))
    add("call partial", lambda x, y: numpoly.polynomial(x(3))), add("call kw", lambda x, y: numpoly.polynomial(x(**{x.names[-1]: -1})))
    add("call poly", lambda x, y: x(**{x.names[0]: numpoly.symbols("q1") + 1}))
    add("call swap", lambda x, y: x(**{x.names[0]: numpoly.symbols(x.names[-1]), x.names[-1]: numpoly.symbols(x.names[0])}))
    add("call staged", lambda x, y: numpoly.polynomial(numpoly.polynomial(x(1))(**{n: 2 for n in x.names[1:]}) if len(x.names) > 1 else x(1)))
    add("getitem", lambda x, y: x[..., -1] if x.ndim else x[()]), add("getitem mask", lambda x, y: x[x != 0] if x.ndim == 1 else x[..., :1] if x.ndim else x)
    add("iter", lambda x, y: numpoly.polynomial(list(x)) if x.ndim else x)
    add("getitem each", lambda x, y: [x[i] for i in range(len(x))] if x.ndim else [x[()]])
    add("iter each", lambda x, y: list(x) if x.ndim else [x])
    add("x + x[1]*0", lambda x, y: x + x[1] * 0 if x.ndim == 1 and len(x) > 1 else x + x * 0)
    add("derivative last,first", lambda x, y: numpoly.derivative(x, x.names[-1], x.names[0]))
    add("derivative first,last", lambda x, y: numpoly.derivative(x, x.names[0], x.names[-1]))
    add("derivative idx 0,1", lambda x, y: numpoly.derivative(x, 0, min(1, len(x.names) - 1)))
    for fn in ("align_polynomials", "align_shape", "align_indeterminants", "align_exponents"):
        add(fn + "[0]", lambda x, y, fn=fn: getattr(numpoly, fn)(x, y)[0])
        add(fn + "[1]", lambda x, y, fn=fn: getattr(numpoly, fn)(x, y)[1])
    add("pickle", lambda x, y: pickle.loads(pickle.dumps(x))), add("pickle(x-x+y)", lambda x, y: pickle.loads(pickle.dumps(x - x + y)))
    add("copy", lambda x, y: x.copy()), add("astype", lambda x, y: x.astype(float))
    add("concatenate", lambda x, y: numpoly.concatenate([numpoly.atleast_1d(x).ravel(), numpoly.atleast_1d(y).ravel()]))
    add("stack", lambda x, y: numpoly.stack([x, x - x])), add("sum", lambda x, y: numpoly.sum(x)), add("prod", lambda x, y: numpoly.prod(numpoly.atleast_1d(x).ravel()))
    add("cumsum", lambda x, y: numpoly.cumsum(numpoly.atleast_1d(x).ravel())), add("mean", lambda x, y: numpoly.mean(x))
    add("where", lambda x, y: numpoly.where(numpoly.atleast_1d(x).ravel() != 0, numpoly.atleast_1d(x).ravel(), 7))
    add("decompose", lambda x, y: numpoly.sum(numpoly.decompose(x), 0)), add("set_dimensions+1", lambda x, y: numpoly.set_dimensions(x, len(x.names) + 1))
    add("set_dimensions-1", lambda x, y: numpoly.set_dimensions(x, max(1, len(x.names) - 1)))
    add("reshape", lambda x, y: numpoly.reshape(x, (-1,))), add("transpose", lambda x, y: numpoly.transpose(x)), add("repeat", lambda x, y: numpoly.repeat(numpoly.atleast_1d(x), 2, axis=0))
    add("diff", lambda x, y: numpoly.diff(numpoly.concatenate([numpoly.atleast_1d(x).ravel(), numpoly.atleast_1d(x).ravel()])))
    add("outer", lambda x, y: numpoly.outer(x, y)), add("inner", lambda x, y: numpoly.inner(numpoly.atleast_1d(x).ravel(), numpoly.atleast_1d(x).ravel()))
    add("isconstant", lambda x, y: bool(numpoly.isconstant(x))), add("tonumpy(x-x)", lambda x, y: numpy.asarray(numpoly.tonumpy(x - x)))
    add("todict", lambda x, y: numpoly.polynomial((x - x + y).todict(), names=(x - x + y).names))
    add("equal", lambda x, y: numpy.asarray(x == x + 0 * y)), add("not_equal", lambda x, y: numpy.asarray(x != y))
    add("to_sympy", lambda x, y: numpoly.polynomial(numpoly.to_sympy(x)) if x.ndim == 0 and x.dtype.kind == "i" else x)
    add("full_like", lambda x, y: numpoly.full_like(numpoly.atleast_1d(x), y) if y.ndim == 0 else x)
    add("clean_attributes", lambda x, y: numpoly.clean_attributes(x - x + y))
    # ordering-based: may depend on sort_graded / sort_reverse only
    add("lead_exponent", lambda x, y: numpy.asarray(numpoly.lead_exponent(x)), "value")   # explicit flags default False: no option dependence
    add("lead_coefficient", lambda x, y: numpy.asarray(numpoly.lead_coefficient(x)), "value")
    add("less", lambda x, y: numpy.asarray(x < y), "ordering"), add("greater_equal", lambda x, y: numpy.asarray(x >= y), "ordering")
    add("less_equal", lambda x, y: numpy.asarray(x <= y), "ordering"), add("greater", lambda x, y: numpy.asarray(x > y), "ordering")
    add("maximum", lambda x, y: numpoly.maximum(x, y), "ordering"), add("minimum", lambda x, y: numpoly.minimum(x, y), "ordering")
    add("sortable_proxy", lambda x, y: numpy.asarray(numpoly.sortable_proxy(x)), "value")
    add("argmax", lambda x, y: int(numpoly.argmax(x)), "ordering"), add("amin", lambda x, y: numpoly.amin(x), "ordering")
    add("str", lambda x, y: str(x), "text"), add("repr", lambda x, y: repr(x + y), "text")
    # division: default retain options only
    add("x / 2", lambda x, y: x / 2, "value", False), add("poly_divmod", lambda x, y: numpoly.poly_divmod(x, numpoly.symbols(x.names[0]) + 1)[1], "value", False)
    add("poly_divmod by q_first", lambda x, y: list(numpoly.poly_divmod(x, numpoly.symbols(x.names[0]))), "value", False)
    add("x // q_last", lambda x, y: x / numpoly.symbols(x.names[-1]), "value", False)
    add("x % q", lambda x, y: x % (numpoly.symbols(x.names[0]) ** 2), "value", False)
    return c


# evaluation costs 10-100 ms per call: like division it runs under the 2**5 settings of the retain, sort and display_graded options
SLOW_CALLS = {"call staged", "call poly", "call swap", "call kw", "call partial", "call full"}
DIVISION = {"x / 2", "poly_divmod", "poly_divmod by q_first", "x // q_last", "x % q"}


def canon(res):
    """comparable canonical form of a result (value, shape, dtype)"""
    if isinstance(res, numpoly.ndpoly):
        w = wellformed(res)
        if w:
            return ("illformed", str(w))
        return ("poly", alpha(res).key(), tuple(res.shape), str(res.dtype))
    if isinstance(res, numpy.ndarray):
        return ("array", res.shape, str(res.dtype), res.tolist())
    if isinstance(res, (tuple, list)):
        return ("seq",) + tuple(canon(r) for r in res)
    return ("obj", repr(res))


def configs(tier):
    out = []
    for bits in itertools.product([True, False], repeat=len(BOOL_OPTS)):
        out.append(dict(zip(BOOL_OPTS, bits)))
    if tier == "thorough":
        extra = []
        for signs in (("^", "·"), ("^^", " ")):
            for cfg in out:
                extra.append(dict(cfg, display_exponent=signs[0], display_multiply=signs[1]))
        out += extra
    return out


PAIRS = [(0, 1), (2, 3), (4, 4), (5, 0), (3, 5), (6, 6), (7, 7), (8, 8)]


def cases(tier, seed):
    out = []
    ncat = len(catalogue())
    for (i, j) in PAIRS:
        for c0 in range(0, ncat, 2):
            out.append({"k": "ops", "x": i, "y": j, "c0": c0, "c1": min(ncat, c0 + 2), "tier": tier})
    labels = [c_[0] for c_ in catalogue()]
    heavy = {"hessian", "gradient", "to_sympy", "x**2", "x*y"} | DIVISION | SLOW_CALLS
    out.sort(key=lambda c: -sum(3 if l_ in heavy else 1 for l_ in labels[c["c0"]:c["c1"]]))   # the slow operations first
    return out


def run_case(case, R):
    ins = inputs()
    (lx, spx), (ly, spy) = ins[case["x"]], ins[case["y"]]
    cat = catalogue()[case["c0"]:case["c1"]]
    cfgs = configs(case["tier"])
    pi = PAIRS.index((case["x"], case["y"])) if (case["x"], case["y"]) in PAIRS else 0
    if case["tier"] == "quick" and pi >= 3:
        # all 256 settings for the first three operand pairs, alternating halves of them for the other five
        cfgs = cfgs[pi % 2::2]
    defaults = {k: tree.DEFAULTS[k] for k in BOOL_OPTS}
    R.state(("ops", lx, ly, case["c0"]))
    # reference: the shipped defaults
    x, y = build_checked(spx), build_checked(spy)
    refs = {}
    for label, kind, g, retain_default_only in cat:
        try:
            refs[label] = canon(g(x, y))
        except Exception:  # noqa: BLE001
            R.stat("not_applicable_to_input")     # the operation does not apply to this input under defaults either
    groups = {label: {} for label in refs}
    for cfg in cfgs:
        tags0 = [f"{k}={cfg[k]}" for k in BOOL_OPTS if cfg[k] != defaults[k]] or ["defaults"]
        with numpoly.global_options(**cfg):
            x, y = build_checked(spx), build_checked(spy)
            for label, kind, g, retain_default_only in cat:
                if label not in refs:
                    continue
                if label in INDEPENDENT and (case["x"], case["y"]) != PAIRS[0]:
                    continue
                if (label in DIVISION or label in SLOW_CALLS) and any(cfg[k] != defaults[k] for k in ("display_reverse", "display_inverse", "force_number_suffix")):
                    continue   # division is slow: the 2**5 settings of the retain, sort and display_graded options only
                R.tr()
                tags = tags0 + ["kind=" + kind]
                sub = {"k": "one", "x": case["x"], "y": case["y"], "label": label, "cfg": cfg}
                try:
                    got = canon(g(x, y))
                except Exception as err:  # noqa: BLE001
                    R.fail(label, "exception", f"{label} on ({lx},{ly}) fails under {short(cfg, defaults)}: {type(err).__name__}: {str(err)[:160]}", tags=tags, sub=sub)
                    continue
                if kind == "value":
                    want = refs[label]
                else:
                    keys = SORT if kind == "ordering" else DISP + tuple(k for k in cfg if k in ("display_exponent", "display_multiply"))
                    want = groups[label].setdefault(tuple(cfg.get(k) for k in keys), got)
                if got != want:
                    R.fail(label, "option-dependent", f"{label} on ({lx},{ly}) under {short(cfg, defaults)}: {str(got)[:200]} != {str(want)[:200]}", tags=tags, sub=sub)
                else:
                    R.outcome((label, lx, ly, tuple(sorted(cfg.items()))))
    R.sample({"inputs": [lx, ly], "operations": [c[0] for c in cat], "configurations": len(cfgs)})


def short(cfg, defaults):
    return {k: v for k, v in cfg.items() if defaults.get(k, None) != v} or "defaults"


_run = run_case


def run_case(case, R):  # noqa: F811
    if case["k"] != "one":
        return _run(case, R)
    ins = inputs()
    (lx, spx), (ly, spy) = ins[case["x"]], ins[case["y"]]
    entry = [c for c in catalogue() if c[0] == case["label"]][0]
    label, kind, g, _ = entry
    x, y = build_checked(spx), build_checked(spy)
    ref = canon(g(x, y))
    R.tr()
    with numpoly.global_options(**case["cfg"]):
        x, y = build_checked(spx), build_checked(spy)
        try:
            got = canon(g(x, y))
        except Exception as err:  # noqa: BLE001
            R.fail(label, "exception", f"{type(err).__name__}: {err}")
            return
    if kind == "value" and got != ref:
        R.fail(label, "option-dependent", f"{str(got)[:200]} != {str(ref)[:200]}")
