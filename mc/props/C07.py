"""C07  Comparison operators form one documented strict total order (E1 packed, x 4 sort configurations)."""
import itertools
import operator

import numpy

from .. import tree  # noqa: F401
import numpoly

from ..alpha import alpha, build_checked, model_of, spec
from ..model import V, compare, mono_key, name_index
from .. import space
from . import C01

ID = "C07"
CASE_BUDGET_S = 900

CONFIGS = [(True, False), (True, True), (False, False), (False, True)]   # (sort_graded, sort_reverse)
OPS = [("lt", operator.lt, lambda s: s < 0), ("le", operator.le, lambda s: s <= 0),
       ("gt", operator.gt, lambda s: s > 0), ("ge", operator.ge, lambda s: s >= 0),
       ("eq", operator.eq, lambda s: s == 0), ("ne", operator.ne, lambda s: s != 0)]
NPOPS = {"lt": numpy.less, "le": numpy.less_equal, "gt": numpy.greater, "ge": numpy.greater_equal,
         "eq": numpy.equal, "ne": numpy.not_equal}
NLOPS = {"lt": "less", "le": "less_equal", "gt": "greater", "ge": "greater_equal", "eq": "equal", "ne": "not_equal"}


def universes(tier):
    u = {
        "A2": (("q0", "q1"), space.universe(("q0", "q1"), 2, 2, [1, -1, 2, -3]), "i8"),
        "A3": (("q0", "q2", "q10"), space.universe(("q0", "q2", "q10"), 2, 2, [1, -2]), "i8"),
        "F2": (("q0", "q1"), space.universe(("q0", "q1"), 2, 2, [0.5, -1.5]), "f8"),
        "U8": (("q0", "q1"), space.universe(("q0", "q1"), 2, 2, [1, 200]), "u1"),
        "I1": (("q0", "q1"), space.universe(("q0", "q1"), 1, 2, [100, -100, 3]), "i1"),
        "U4": (("q0",), space.universe(("q0",), 3, 2, [1, 4000000000]), "u4"),
        "INF": (("q0", "q1"), space.nonfinite_universe(), "f8"),
    }
    if tier == "thorough":
        u["B2"] = (("q0", "q1"), space.universe(("q0", "q1"), 2, 3, [1, -1, 2]), "i8")
        u["B3"] = (("q0", "q1", "q2"), space.universe(("q0", "q1", "q2"), 3, 2, [1, -1]), "i8")
    return u


def family(deg):
    """B + m1 - m2 for all ordered pairs of monomials of degree <= deg in 3 indeterminates"""
    names = ("q0", "q1", "q2")
    monos = space.monomials(3, deg)
    base = {m: 1 for m in monos}
    elems = []
    for m1 in monos:
        for m2 in monos:
            t = dict(base)
            t[m1] = t[m1] + 1
            t[m2] = t[m2] - 1
            elems.append(list(t.items()))
    return names, monos, [list(base.items())], elems


META = {
    "rule": "all ordered pairs of small-polynomial universes (2 and 3 indeterminates incl. q10, int and float "
            "coefficients, zero, constants, cancelling pairs) evaluated PACKED (A[:,None] op A[None,:]) for the six "
            "operators, plus scalar (0-d) calls and numpy.less..not_equal / numpoly.less.. spellings on all pairs of a "
            "73-element universe, the family B+m1-m2 over all monomial pairs of degree<=4 (35 equal-degree-heavy keys), "
            "cross-name-set pairs, broadcasting shapes, numeric operands, maximum/minimum; under all four "
            "sort_graded/sort_reverse settings. Oracle: reference comparison (sign of the coefficient difference at the "
            "largest differing monomial in the selected order). Agreement with a total order on ALL pairs implies "
            "trichotomy, antisymmetry and transitivity on all triples; transitivity is additionally evaluated on the "
            "implementation's own boolean matrices. distinct = ordered pair of distinct universe elements x configuration.",
    "bounds": lambda tier: {"universes": {k: len(v[1]) for k, v in universes(tier).items()}, "configs": 4,
                            "family_degree": 4 if tier == "quick" else 5},
    "assumptions": ["universes U8/I1/U4 carry uint8/int8/uint32 coefficients whose differences do not fit the coefficient dtype", "NaN and complex coefficients excluded (numpy's own order on those is not the documented one)",
                    "name order = numeric suffix order, last name most significant unless sort_reverse"],
}


def cases(tier, seed):
    from .. import produced
    return _cases(tier, seed) + produced.case_list()


def _cases(tier, seed):
    out = []
    for uname, (names, u, dt) in universes(tier).items():
        step = 16 if len(u) < 600 else 8
        for g, r in CONFIGS:
            for i0 in range(0, len(u), step):
                out.append({"k": "packed", "u": uname, "g": g, "r": r, "i0": i0, "i1": min(len(u), i0 + step), "tier": tier})
    n = len(space.U0minus())
    for g, r in CONFIGS:
        for i in range(n):
            out.append({"k": "scalarrow", "g": g, "r": r, "i": i})
        out.append({"k": "family", "g": g, "r": r, "deg": 4})
        if tier == "thorough":
            out.append({"k": "family", "g": g, "r": r, "deg": 5})
        for i in range(len(C01.names_pool())):
            out.append({"k": "namesrow", "g": g, "r": r, "i": i})
        out.append({"k": "shapes", "g": g, "r": r})
        out.append({"k": "samekeys", "g": g, "r": r})
        out.append({"k": "numeric", "g": g, "r": r})
        out.append({"k": "twins", "g": g, "r": r})
        out.append({"k": "wide", "g": g, "r": r})
    if tier == "thorough":
        from .C18 import CPU_CONFIGS
        for name in CPU_CONFIGS:
            out.append({"k": "dispatch", "cfg": name, "g": True, "r": False})
    return out


def sign_matrix(ea, eb, names, g, r):
    """reference: S[i, j] = sign(ea[i] - eb[j]) under the selected order"""
    S = numpy.zeros((len(ea), len(eb)), dtype=int)
    for i, x in enumerate(ea):
        for j, y in enumerate(eb):
            S[i, j] = compare(x, y, names, g, r)
    return S


def elems_of(v):
    return [dict(x) for x in v.elements().ravel().tolist()]


def all_names(*vs):
    return sorted({n for v in vs for n in v.names()}, key=name_index)


def check_ops(R, pa, pb, S, what, tags, sub=None, spellings=("operator",)):
    """pa, pb: implementation operands whose broadcast comparison must give sign matrix S"""
    for name, f, pred in OPS:
        want = pred(S)
        fs = []
        if "operator" in spellings:
            fs.append(("operator", f))
        if "numpy" in spellings:
            fs.append(("numpy", NPOPS[name]))
        if "numpoly" in spellings:
            fs.append(("numpoly", getattr(numpoly, NLOPS[name])))
        for sp, fn in fs:
            R.tr()
            try:
                got = fn(pa, pb)
            except Exception as err:  # noqa: BLE001
                R.fail(name, "exception", f"{what}: {type(err).__name__}: {err}", tags=tags, sub=sub)
                continue
            got = numpy.asarray(got)
            if got.dtype != bool:
                R.fail(name, "wrong-type", f"{what}: result dtype {got.dtype}", tags=tags, sub=sub)
                continue
            if got.shape != want.shape or not (got == want).all():
                if got.shape == want.shape:
                    bad = numpy.argwhere(got != want)
                    detail = f"{len(bad)} wrong verdicts, first at {tuple(int(x) for x in bad[0])}: got {got[tuple(bad[0])]}"
                else:
                    detail = f"shape {got.shape} != {want.shape}"
                R.fail(name, "wrong-value", f"{what} [{sp}]: {detail}", tags=tags, sub=sub)
    return


def run_dispatch(case, R):
    """the equal-degree-heavy family and a packed universe again under a reduced CPU dispatch of numpy's sort
    kernels (separate process, NPY_DISABLE_CPU_FEATURES)"""
    import json
    import os
    import subprocess
    import sys
    from .C18 import CPU_CONFIGS
    env = dict(os.environ, NPY_DISABLE_CPU_FEATURES=CPU_CONFIGS[case["cfg"]], VERIF_REPO=tree.REPO)
    proc = subprocess.run([sys.executable, "-m", "mc.props.C07"], env=env, capture_output=True, text=True,
                          cwd=os.path.dirname(os.path.dirname(os.path.dirname(os.path.abspath(__file__)))), timeout=1500)
    if proc.returncode != 0:
        raise RuntimeError("dispatch subprocess failed: " + proc.stderr[-500:])
    res = json.loads(proc.stdout.strip().splitlines()[-1])
    R.tr(res["n"])
    R.state(("dispatch", case["cfg"]))
    R.stat("dispatch_transitions:" + case["cfg"], res["n"])
    for f in res["fails"][:20]:
        R.fail(f["op"], f["kind"], f"[cpu dispatch {case['cfg']}] {f['detail']}", tags=f["tags"] + ["dispatch=" + case["cfg"]])


def run_case(case, R):
    if case.get("k") == "produced":
        from .. import produced
        return produced.run(R, ID, case["i0"], case["i1"])
    k = case["k"]
    if k == "dispatch":
        return run_dispatch(case, R)
    g, r = case["g"], case["r"]
    tags = [f"graded={g}", f"reverse={r}"]
    with numpoly.global_options(sort_graded=g, sort_reverse=r):
        if k == "packed":
            names, u, dt = universes(case["tier"])[case["u"]]
            A = build_checked(space.packed_spec(names, u, dt))
            rows = u[case["i0"]:case["i1"]]
            B = build_checked(space.packed_spec(names, rows, dt))
            ea = elems_of(model_of(space.packed_spec(names, u, dt)))
            eb = elems_of(model_of(space.packed_spec(names, rows, dt)))
            S = sign_matrix(eb, ea, names, g, r)
            check_ops(R, B[:, None], A[None, :], S, f"packed {case['u']} rows {case['i0']}..{case['i1']}", tags + ["packed"])
            # maximum / minimum: per element the larger / smaller operand
            for fname, pick in (("maximum", lambda s: s >= 0), ("minimum", lambda s: s <= 0)):
                R.tr()
                try:
                    got = getattr(numpoly, fname)(B[:, None], A[None, :])
                    ge = alpha(got).elements()
                except Exception as err:  # noqa: BLE001
                    R.fail(fname, "exception", f"{type(err).__name__}: {err}", tags=tags)
                    continue
                bad = 0
                first = None
                for i in range(len(eb)):
                    for j in range(len(ea)):
                        want = eb[i] if pick(S[i, j]) else ea[j]
                        if dict(ge[i, j]) != want:
                            bad += 1
                            first = first or (i, j, dict(ge[i, j]), want)
                if bad:
                    R.fail(fname, "wrong-value", f"{bad} elements wrong, first {first}", tags=tags)
            R.stat("pairs", S.size)
            for i in range(case["i0"], case["i1"]):
                R.state((case["u"], g, r, i))
            R.outcome((case["u"], g, r, case["i0"], hash(S.tobytes())))
            R.sample({"universe": case["u"], "config": [g, r], "rows": [case["i0"], case["i1"]],
                      "first_row_signs": S[0, :12].tolist()})
        elif k == "scalarrow":
            u = space.U0minus()
            names = ("q0", "q1")
            a = build_checked(space.scalar_spec(names, u[case["i"]]))
            ea = [dict(u[case["i"]]) and {frozenset((names[i], e) for i, e in enumerate(ex) if e): c for ex, c in u[case["i"]]}]
            R.state(("s", g, r, case["i"]))
            for j, t in enumerate(u):
                b = build_checked(space.scalar_spec(names, t))
                eb = [{frozenset((names[i], e) for i, e in enumerate(ex) if e): c for ex, c in t}]
                S = sign_matrix(ea, eb, names, g, r).reshape(())
                check_ops(R, a, b, S, f"scalar pair ({case['i']},{j})", tags + ["0-d"],
                          spellings=("operator", "numpy", "numpoly") if j % 4 == case["i"] % 4 else ("operator",))
        elif k == "family":
            names, monos, base, elems = family(case["deg"])
            A = build_checked(space.packed_spec(names, elems))
            B = build_checked(space.scalar_spec(names, base[0]))
            ea = elems_of(model_of(space.packed_spec(names, elems)))
            eb = elems_of(model_of(space.scalar_spec(names, base[0])))
            S = sign_matrix(ea, eb, names, g, r).reshape(len(ea))
            check_ops(R, A, B, S, f"family deg<={case['deg']} vs base", tags + ["family"])
            # and against each other on a band (every element vs the next 40)
            n = len(ea)
            for off in (1, 7, 36):
                S2 = numpy.array([compare(ea[i], ea[(i + off) % n], names, g, r) for i in range(n)])
                idx = (numpy.arange(n) + off) % n
                check_ops(R, A, A[idx], S2, f"family deg<={case['deg']} offset {off}", tags + ["family"])
            R.state(("family", g, r, case["deg"]))
            R.stat("pairs", 4 * n)
        elif k == "namesrow":
            pool = C01.names_pool()
            sa = pool[case["i"]]
            a = build_checked(sa)
            ma = model_of(sa)
            R.state(("n", g, r, case["i"]))
            for sb in pool:
                b = build_checked(sb)
                mb = model_of(sb)
                names = all_names(ma, mb)
                S = sign_matrix(elems_of(ma), elems_of(mb), names, g, r).reshape(())
                unsorted = [t for t in (sa["n"], sb["n"]) if list(t) != sorted(t, key=name_index)]
                check_ops(R, a, b, S, f"names {sa['n']} vs {sb['n']}: {sa['t']} ? {sb['t']}",
                          tags + ["names"] + (["unsorted_names"] if unsorted else []), sub=None)
        elif k == "wide":
            ws = [sp for _, sp in space.wide_specs()]
            for i, sa in enumerate(ws):
                a, ma = build_checked(sa), model_of(sa)
                for j, sb in enumerate(ws):
                    if abs(i - j) > 3 and not (i >= 10 and j >= 10):
                        continue
                    b, mb = build_checked(sb), model_of(sb)
                    names = all_names(ma, mb)
                    S = sign_matrix(elems_of(ma), elems_of(mb), names, g, r).reshape(())
                    check_ops(R, a, b, S, f"wide {i} vs {j}", tags + ["wide"])
                    R.state(("wide", g, r, i, j))
        elif k == "twins":
            seq = [sp for sp in space.twin_sequence() if not sp["s"]]
            for i, (sa, sb) in enumerate(zip(seq, seq[1:] + seq[:1])):
                a, b = build_checked(sa), build_checked(sb)
                ma, mb = model_of(sa), model_of(sb)
                names = all_names(ma, mb)
                S = sign_matrix(elems_of(ma), elems_of(mb), names, g, r).reshape(())
                unsorted = [t for t in (sa["n"], sb["n"]) if list(t) != sorted(t, key=name_index)]
                check_ops(R, a, b, S, f"twins {i}: {sa['n']}{sa['t']} ? {sb['n']}{sb['t']}", tags + ["twins"] + (["unsorted_names"] if unsorted else []))
                R.state(("twins", g, r, i))
        elif k == "shapes":
            names = ("q0", "q1")
            pool = C01.POOLS["int"][1] + [[((0, 0), 2)], [((0, 0), -1)], [((2, 0), 1)]]
            for sa, sb in space.broadcastable_pairs([(), (1,), (3,), (2, 1), (1, 3), (2, 3), (2, 1, 3), (1, 1, 1)]):
                for rot in (0, 3):
                    spa = space.array_spec(names, sa, space.fill(pool, sa, rot, 1))
                    spb = space.array_spec(names, sb, space.fill(pool, sb, rot + 2, 3), variant="T" if len(sb) > 1 else "canon")
                    a, b = build_checked(spa), build_checked(spb)
                    ma, mb = model_of(spa), model_of(spb)
                    shape = numpy.broadcast_shapes(sa, sb)
                    ea = numpy.broadcast_to(ma.elements(), shape)
                    eb = numpy.broadcast_to(mb.elements(), shape)
                    S = numpy.zeros(shape, dtype=int)
                    for idx in numpy.ndindex(*shape):
                        S[idx] = compare(dict(ea[idx]), dict(eb[idx]), names, g, r)
                    check_ops(R, a, b, S, f"shapes {sa} vs {sb}", tags + ["shapes"], spellings=("operator", "numpy"))
                    R.state(("sh", g, r, sa, sb, rot))
        elif k == "samekeys":
            # operands stored over one and the same exponent table (columns that are all zero in one of them included), which
            # differ in exactly one monomial in some elements and are equal in the others; every pair of storage layouts
            names = ("q0", "q1")
            pool = C01.POOLS["int"][1] + [[((0, 0), 2)], [((2, 0), 1)], []]
            M = [m_ for m_ in space.monomials(2, 2)] + [(1, 2)]
            layouts = ("canon", "view", "T", "rev", "slice")
            for shape in [(3,), (2, 3)]:
                els_a = space.fill(pool, shape, 1, 1)
                n = len(els_a)
                for e in M:
                    bump = [[1, 0, -2, 0, 3, 0][i % 6] for i in range(n)]
                    els_b = []
                    for i, t in enumerate(els_a):
                        d = dict(t)
                        if bump[i]:
                            d[e] = d.get(e, 0) + bump[i]
                        els_b.append([(ex, c) for ex, c in d.items() if c])

                    def table(els):
                        cols = {m_: [0] * n for m_ in M}
                        for i, t in enumerate(els):
                            for ex, c in t:
                                cols.setdefault(tuple(ex), [0] * n)[i] = c
                        return cols
                    ca, cb = table(els_a), table(els_b)
                    keys = sorted(set(ca) | set(cb))
                    for la, lb in itertools.product(layouts, repeat=2):
                        if "T" in (la, lb) and len(shape) < 2:
                            continue
                        spa = spec(names, shape, [(m_, ca.get(m_, [0] * n)) for m_ in keys], "i8", la)
                        spb = spec(names, shape, [(m_, cb.get(m_, [0] * n)) for m_ in keys], "i8", lb)
                        a, b = build_checked(spa), build_checked(spb)
                        ea, eb = model_of(spa).elements(), model_of(spb).elements()
                        S = numpy.zeros(shape, dtype=int)
                        for idx in numpy.ndindex(*shape):
                            S[idx] = compare(dict(ea[idx]), dict(eb[idx]), names, g, r)
                        check_ops(R, a, b, S, f"same keys, differ at {e}, layouts {la}/{lb}, {shape}", tags + ["samekeys"])
                        check_ops(R, b, a, -S, f"same keys, differ at {e}, layouts {lb}/{la} swapped, {shape}", tags + ["samekeys"])
                    R.state(("samekeys", g, r, shape, e))
        elif k == "numeric":
            names = ("q0", "q1")
            pool = [[((0, 0), 2)], [((0, 0), -1)], [], [((1, 0), 1)], [((0, 0), 3), ((1, 0), 0)], [((0, 1), -1), ((0, 0), 5)]]
            for dt, nums in (("i8", [2, -1, 0, 3]), ("f8", [0.5, -1.0, 2.0, 0.0])):
                spa = space.array_spec(names, (len(pool),), pool, dt)
                a = build_checked(spa)
                ma = model_of(spa)
                for x in nums:
                    for other in (x, numpy.float64(x), numpy.array([x] * len(pool)), [x] * len(pool)):
                        mo = V.const(numpy.asarray(other))
                        eo = numpy.broadcast_to(mo.elements(), (len(pool),))
                        S = numpy.array([compare(dict(e), dict(o), names, g, r) for e, o in zip(ma.elements(), eo)])
                        check_ops(R, a, other, S, f"poly vs {type(other).__name__} {x}", tags + ["numeric"])
                        if not isinstance(other, list):
                            check_ops(R, other, a, -S, f"{type(other).__name__} {x} vs poly", tags + ["numeric", "reflected"])
            R.state(("num", g, r))
        else:
            raise KeyError(k)


def post(agg, tier, seed, cov):
    cov["pairs_decided"] = agg["stats"].get("pairs", 0)
    return []


if __name__ == "__main__":
    import json
    from ..run import Recorder
    total, fails = 0, []
    for g, r in CONFIGS:
        for case in ({"k": "family", "g": g, "r": r, "deg": 4}, {"k": "family", "g": g, "r": r, "deg": 5},
                     {"k": "packed", "u": "A3", "g": g, "r": r, "i0": 0, "i1": 64, "tier": "quick"}):
            R = Recorder(case)
            run_case(case, R)
            total += R.transitions
            fails += [{"op": f["op"], "kind": f["kind"], "detail": f["detail"], "tags": f["tags"]} for f in R.fails]
    print(json.dumps({"n": total, "fails": fails[:50]}))
