"""C10  Reductions and linear algebra equal finite sums and products of elements (E1).

Oracle: numpy's own function applied to numpy *object* arrays whose items are 0-d model polynomials (V
implements + - *), i.e. numpy defines the reduction structure and the model defines the arithmetic;
det by the Leibniz formula; mean with Fractions (compared with relative tolerance 1e-12)."""
import itertools
from fractions import Fraction

import numpy

from .. import tree  # noqa: F401
import numpoly

from ..alpha import alpha, build_checked, model_of, spec, wellformed
from ..model import V, exact_array, ONE
from .. import space
from . import C01, C09

ID = "C10"
CASE_BUDGET_S = 900

SHAPES = [(1,), (2,), (3,), (1, 1), (1, 3), (3, 1), (2, 2), (2, 3), (1, 2, 2), (2, 1, 3), (2, 2, 2)]

META = {
    "rule": "arrays of 11 shapes (1-3 dims, size-1 axes) x 3 fillings over two name sets x 3 representations x every axis / "
            "axis tuple / None x keepdims for sum, prod, mean, cumsum; diff for n in 0..2, every axis, prepend/append in "
            "{absent, number, polynomial, array}; ediff1d with to_begin/to_end; inner/outer on vectors of length 1-3; "
            "matmul for every pair of 9 operand shapes numpy accepts; det for 1x1..4x4 and stacked matrices; numpoly / "
            "numpy / method / add.reduce / add.accumulate / multiply.reduce spellings. Oracle = numpy on object arrays of "
            "model polynomials. distinct = (function, arguments, shape, filling, representation).",
    "bounds": {"shapes": len(SHAPES), "fillings": 3, "det_dims": [1, 2, 3, 4]},
    "assumptions": ["where numpy rejects the arguments on the object-array reference nothing is demanded",
                    "mean compared with relative tolerance 1e-12 (float division by a count)"],
}

POOL = [
    [((1, 0), 1)], [((0, 1), 2), ((0, 0), -1)], [], [((0, 0), 3)], [((1, 1), -1), ((1, 0), 2)], [((2, 0), 1), ((0, 0), 1)],
    [((0, 1), -2)],
]


def filled(shape, rot, names=("q0", "q1"), variant="canon", dtype="i8"):
    return space.array_spec(names, shape, space.fill(POOL, shape, rot, 1 if rot != 2 else 3), dtype, variant)


def to_obj(v):
    """model array -> numpy object array of 0-d model polynomials"""
    out = numpy.empty(v.shape, dtype=object)
    el = v.elements()
    for idx in numpy.ndindex(*v.shape):
        out[idx] = V({m: numpy.array(c, dtype=object) for m, c in dict(el[idx]).items()}, ())
    return out


def from_obj(arr):
    if isinstance(arr, V):
        return arr
    arr = numpy.asarray(arr, dtype=object)
    els = numpy.empty(arr.shape, dtype=object)
    for idx in numpy.ndindex(*arr.shape):
        x = arr[idx]
        if not isinstance(x, V):
            x = V.const(x)
        els[idx] = frozenset(x.element(()).items())
    return V.from_elements(els)


def frac(v):
    """coefficient arrays of Fractions (so that numpy's object-array mean divides exactly)"""
    return V({m: numpy.vectorize(lambda x: Fraction(x) if not isinstance(x, complex) else x, otypes=[object])(c)
              if c.shape else numpy.array(Fraction(c.item()), dtype=object) for m, c in v.t.items()}, v.shape)


def axes_choices(nd):
    """None, every single axis in both spellings, and every ordered selection of >= 2 distinct axes with every
    combination of positive / negative spelling of each entry"""
    out = [None]
    out += list(range(-nd, nd))
    for k in range(2, nd + 1):
        for sel in itertools.permutations(range(nd), k):
            for signs in itertools.product([0, 1], repeat=k):
                out.append(tuple(a - nd if s else a for a, s in zip(sel, signs)))
    return out


def judge(R, label, fname, impl, ref, tags, close=False, sub=None):
    R.tr()
    try:
        exp = ref()
    except Exception:  # noqa: BLE001
        R.stat("numpy_rejects")
        return
    exp = from_obj(exp) if not isinstance(exp, V) else exp
    try:
        got = impl()
    except Exception as err:  # noqa: BLE001
        R.fail(fname, "exception", f"{label}: {type(err).__name__}: {err}", tags=tags, sub=sub)
        return
    if not isinstance(got, numpoly.ndpoly):
        R.fail(fname, "wrong-type", f"{label}: result type {type(got).__name__}", tags=tags, sub=sub)
        return
    if tuple(got.shape) != exp.shape:
        R.fail(fname, "wrong-value", f"{label}: shape {tuple(got.shape)} != {exp.shape}", tags=tags, sub=sub)
        return
    w = wellformed(got)
    a = alpha(got) if not w else None
    ok = (not w) and (a.close(exp, rtol=1e-12, atol=1e-12) if close else a == exp)
    if not ok:
        R.fail(fname, "wrong-value", f"{label}: got {a!r} expected {exp!r} {w}"[:500], tags=tags, sub=sub)
    else:
        R.outcome((fname, label, exp.key()))


def cases(tier, seed):
    from .. import produced
    return _cases(tier, seed) + produced.case_list()


def _cases(tier, seed):
    out = []
    for shape in SHAPES + ([(4,), (3, 3), (2, 3, 2), (1, 1, 1), (3, 1, 2)] if tier == "thorough" else []):
        for rot in (0, 1, 2):
            for var in ("canon", "T", "zeroterm", "rev"):
                if var == "T" and len(shape) < 2:
                    continue
                out.append({"k": "reduce", "s": list(shape), "rot": rot, "v": var})
        out.append({"k": "diff", "s": list(shape)})
    out.append({"k": "ediff1d"})
    for i in range(len(space.long_array_specs())):
        out.append({"k": "long", "i": i})
    out.append({"k": "twins"})
    out.append({"k": "innerouter"})
    out.append({"k": "matmul"})
    for d in (1, 2, 3, 4):
        out.append({"k": "det", "d": d})
    return out


def run_case(case, R):
    if case.get("k") == "produced":
        from .. import produced
        return produced.run(R, ID, case["i0"], case["i1"])
    k = case["k"]
    if k == "reduce":
        shape, rot, var = tuple(case["s"]), case["rot"], case["v"]
        sp = filled(shape, rot, variant=var)
        p, m = build_checked(sp), model_of(sp)
        mo = to_obj(m)
        nd = len(shape)
        tags = [f"ndim={nd}", f"variant={var}"]
        R.state(("reduce", shape, rot, var))
        for ax in axes_choices(nd):
            for keep in (False, True):
                tg = tags + [f"axis={'None' if ax is None else 'tuple' if isinstance(ax, tuple) else 'int'}", f"keepdims={keep}"]
                lab = f"axis={ax} keepdims={keep} on {shape}/{rot}/{var}"
                for sp_, f in (("numpoly", lambda: numpoly.sum(p, axis=ax, keepdims=keep)),
                               ("numpy", lambda: numpy.sum(p, axis=ax, keepdims=keep)),
                               ("method", lambda: p.sum(axis=ax, keepdims=keep)),
                               ("add.reduce", lambda: numpy.add.reduce(p, axis=ax, keepdims=keep))):
                    judge(R, f"sum[{sp_}] {lab}", "sum", f, lambda: m.map(lambda c: numpy.sum(c, axis=ax, keepdims=keep)), tg)
                for sp_, f in (("numpoly", lambda: numpoly.prod(p, axis=ax, keepdims=keep)),
                               ("numpy", lambda: numpy.prod(p, axis=ax, keepdims=keep)),
                               ("method", lambda: p.prod(axis=ax, keepdims=keep)),
                               ("multiply.reduce", lambda: numpy.multiply.reduce(p, axis=ax, keepdims=keep))):
                    judge(R, f"prod[{sp_}] {lab}", "prod", f, lambda: numpy.prod(mo, axis=ax, keepdims=keep), tg)
                for sp_, f in (("numpoly", lambda: numpoly.mean(p, axis=ax, keepdims=keep)),
                               ("numpy", lambda: numpy.mean(p, axis=ax, keepdims=keep)),
                               ("method", lambda: p.mean(axis=ax, keepdims=keep))):
                    judge(R, f"mean[{sp_}] {lab}", "mean", f,
                          lambda: frac(m).map(lambda c: numpy.mean(c, axis=ax, keepdims=keep)), tg, close=True)
            if ax is None or isinstance(ax, int):
                lab = f"axis={ax} on {shape}/{rot}/{var}"
                for sp_, f in (("numpoly", lambda: numpoly.cumsum(p, axis=ax)), ("numpy", lambda: numpy.cumsum(p, axis=ax)),
                               ("method", lambda: p.cumsum(axis=ax))) + (
                        (("add.accumulate", lambda: numpy.add.accumulate(p, axis=ax)),) if ax is not None else ()):
                    judge(R, f"cumsum[{sp_}] {lab}", "cumsum", f, lambda: m.map(lambda c: numpy.cumsum(c, axis=ax)),
                          tags + [f"axis={'None' if ax is None else 'int'}"])
        # no-argument spellings
        judge(R, f"sum() on {shape}", "sum", lambda: numpoly.sum(p), lambda: m.map(numpy.sum), tags + ["axis=None"])
        judge(R, f"prod() on {shape}", "prod", lambda: numpoly.prod(p), lambda: numpy.prod(mo), tags + ["axis=None"])
        judge(R, f"mean() on {shape}", "mean", lambda: numpoly.mean(p), lambda: frac(m).map(numpy.mean), tags + ["axis=None"], close=True)
        R.sample({"array": str(p).replace("\n", " ")[:160], "axes": [str(a) for a in axes_choices(nd)]})
    elif k == "twins":
        seq = [sp for sp in space.twin_sequence() if tuple(sp["s"]) == (2,)] + [sp for _, sp in space.wide_array_specs()]
        for i, sp in enumerate(seq):
            p, m = build_checked(sp), model_of(sp)
            if len(m.t) > 30:
                continue
            mo = to_obj(m)
            R.state(("twins", i))
            judge(R, f"sum twin {i}", "sum", lambda: numpoly.sum(p), lambda: m.map(numpy.sum), ["twins"])
            judge(R, f"prod twin {i}", "prod", lambda: numpoly.prod(p), lambda: numpy.prod(mo), ["twins"])
            judge(R, f"cumsum twin {i}", "cumsum", lambda: numpoly.cumsum(p), lambda: m.map(numpy.cumsum), ["twins"])
            judge(R, f"outer twin {i}", "outer", lambda: numpoly.outer(p, p), lambda: numpy.outer(mo, mo), ["twins"])
            judge(R, f"inner twin {i}", "inner", lambda: numpoly.inner(p, p), lambda: numpy.inner(mo, mo), ["twins"])
            judge(R, f"diff twin {i}", "diff", lambda: numpoly.diff(p), lambda: m.map(numpy.diff), ["twins"])
    elif k == "long":
        # arrays with 65 .. 130 elements along an axis: sums, cumulative sums, differences and contractions over the long axis
        lab, sp = space.long_array_specs()[case["i"]]
        p, m = build_checked(sp), model_of(sp)
        mo = to_obj(m)
        shape = tuple(sp["s"])
        R.state(("long", lab))
        tags = ["long"]
        for ax in [None] + list(range(len(shape))):
            for spn, f in (("numpoly", lambda: numpoly.sum(p, axis=ax)), ("numpy", lambda: numpy.sum(p, axis=ax)), ("method", lambda: p.sum(axis=ax))):
                judge(R, f"sum[{spn}] {lab} axis={ax}", "sum", f, lambda: m.map(lambda c: numpy.sum(c, axis=ax)), tags)
            judge(R, f"mean {lab} axis={ax}", "mean", lambda: numpoly.mean(p, axis=ax), lambda: m.map(lambda c: numpy.sum(c, axis=ax)) * V.const(Fraction(1, p.size if ax is None else shape[ax])), tags, close=True)
            judge(R, f"cumsum {lab} axis={ax}", "cumsum", lambda: numpoly.cumsum(p, axis=ax), lambda: m.map(lambda c: numpy.cumsum(c, axis=ax)), tags)
            if ax is not None:
                judge(R, f"diff {lab} axis={ax}", "diff", lambda: numpoly.diff(p, axis=ax), lambda: m.map(lambda c: numpy.diff(c, axis=ax)),
                      tags + ["empty_result" if shape[ax] <= 1 else "nonempty_result"])
                judge(R, f"add.reduce {lab} axis={ax}", "sum", lambda: numpy.add.reduce(p, axis=ax), lambda: m.map(lambda c: numpy.sum(c, axis=ax)), tags)
        judge(R, f"ediff1d {lab}", "ediff1d", lambda: numpoly.ediff1d(p), lambda: m.map(lambda c: numpy.ediff1d(c)), tags)
        # contractions over the long axis: as row x column, matrix x matrix^T, inner of the flattened arrays
        flat = p.reshape(-1)
        mflat = mo.reshape(-1)
        n = flat.shape[0]
        a2, b2 = p.reshape(1, n) if len(shape) == 1 else p, (p.reshape(n, 1) if len(shape) == 1 else p.T)
        ma2, mb2 = (mo.reshape(1, n) if len(shape) == 1 else mo), (mo.reshape(n, 1) if len(shape) == 1 else mo.T)
        for spn, f in (("numpoly", lambda: numpoly.matmul(a2, b2)), ("numpy", lambda: numpy.matmul(a2, b2)), ("operator", lambda: a2 @ b2)):
            judge(R, f"matmul[{spn}] {lab}: {a2.shape}@{b2.shape}", "matmul", f, lambda: numpy.matmul(ma2, mb2), tags + [f"x1_ndim=2", "x2_ndim=2"])
        nums = (numpy.arange(b2.shape[0] * 2).reshape(b2.shape[0], 2) % 5) - 2
        judge(R, f"matmul {lab}: {a2.shape}@ndarray{nums.shape}", "matmul", lambda: a2 @ nums, lambda: numpy.matmul(ma2, nums.astype(object)), tags + ["numeric_operand"])
        judge(R, f"inner {lab} flattened", "inner", lambda: numpoly.inner(flat, flat), lambda: numpy.inner(mflat, mflat), tags + ["inner", "vectors"])
        if len(shape) == 1:
            short = build_checked(filled((3,), 1))
            mshort = to_obj(model_of(filled((3,), 1)))
            judge(R, f"outer {lab} x (3,)", "outer", lambda: numpoly.outer(p, short), lambda: numpy.outer(mo, mshort), tags + ["outer"])
    elif k == "diff":
        shape = tuple(case["s"])
        nd = len(shape)
        R.state(("diff", shape))
        for rot, var in ((0, "canon"), (1, "canon"), (0, "T"), (1, "rev"), (0, "F"), (1, "slice")):
            if var in ("T", "F") and nd < 2:
                continue
            sp = filled(shape, rot, variant=var)
            p, m = build_checked(sp), model_of(sp)
            for ax in range(-nd, nd):
                edge_shape = tuple(1 if (i == ax % nd) else s for i, s in enumerate(shape))
                evar = "T" if var != "canon" and len(edge_shape) >= 2 else "rev" if var != "canon" else "canon"
                extras = {
                    "absent": (None, None),
                    "number": (3, V.const(3)),
                    "poly0d": (build_checked(spec(("q1", "q2"), (), [((1, 1), 2), ((0, 0), 1)])),
                               model_of(spec(("q1", "q2"), (), [((1, 1), 2), ((0, 0), 1)]))),
                    "array": (build_checked(filled(edge_shape, 3, names=("q0", "q2"), variant=evar)), model_of(filled(edge_shape, 3, names=("q0", "q2")))),
                }
                for n in (0, 1, 2):
                    for pk, ak in (("absent", "absent"), ("number", "absent"), ("absent", "poly0d"), ("array", "absent"),
                                   ("absent", "array"), ("poly0d", "array"), ("array", "number")):
                        kw, mkw = {}, {}
                        if pk != "absent":
                            kw["prepend"], mkw["prepend"] = extras[pk]
                        if ak != "absent":
                            kw["append"], mkw["append"] = extras[ak]

                        def ref():
                            parts = [m] + list(mkw.values())
                            keys = list(mkw.keys())

                            def fn(cs):
                                kk = {key: (numpy.broadcast_to(c, edge_shape) if c.shape != edge_shape else c)
                                      for key, c in zip(keys, cs[1:])}
                                return numpy.diff(cs[0], n=n, axis=ax, **kk)
                            return C09.vmap_multi(fn, parts)
                        tags = [f"n={n}", f"prepend={pk}", f"append={ak}", f"axis_len={shape[ax]}",
                                "empty_result" if shape[ax] + (pk != "absent") + (ak != "absent") - n <= 0 else "nonempty_result"]
                        pos = [n, ax] + ([kw["prepend"], kw["append"]] if len(kw) == 2 else [kw["prepend"]] if "prepend" in kw else [])
                        forms = [("numpoly", lambda: numpoly.diff(p, n=n, axis=ax, **kw)), ("numpy", lambda: numpy.diff(p, n=n, axis=ax, **kw))]
                        if "append" not in kw or "prepend" in kw:
                            # the same arguments given positionally, in numpy's order (a, n, axis, prepend, append)
                            forms += [("numpoly positional", lambda: numpoly.diff(p, *pos)), ("numpy positional", lambda: numpy.diff(p, *pos))]
                        for sp_, f in forms:
                            judge(R, f"diff[{sp_}] n={n} axis={ax} prepend={pk} append={ak} on {shape}/{rot}/{var}", "diff", f, ref, tags + [f"variant={var}"])
    elif k == "ediff1d":
        R.state("ediff1d")
        for shape in [(1,), (2,), (3,), (2, 2), (2, 1, 3), (2, 3)]:
            for rot, var in ((0, "canon"), (1, "canon"), (2, "canon"), (0, "T"), (1, "F"), (2, "rev"), (1, "slice"), (2, "T")):
                if var in ("T", "F") and len(shape) < 2:
                    continue
                sp = filled(shape, rot, variant=var)
                p, m = build_checked(sp), model_of(sp)
                extras = {
                    "absent": (None, None), "number": (3, V.const(3)),
                    "poly": (build_checked(spec(("q1", "q2"), (), [((1, 1), 2)])), model_of(spec(("q1", "q2"), (), [((1, 1), 2)]))),
                    "array": (build_checked(filled((2,), 4, names=("q0", "q2"), variant="rev" if var != "canon" else "canon")), model_of(filled((2,), 4, names=("q0", "q2")))),
                    "matrix": (build_checked(filled((2, 2), 5, names=("q0", "q2"), variant="T" if var != "canon" else "canon")), model_of(filled((2, 2), 5, names=("q0", "q2")))),
                }
                for bk, ek in itertools.product(extras, repeat=2):
                    kw, ms = {}, []
                    if bk != "absent":
                        kw["to_begin"] = extras[bk][0]
                    if ek != "absent":
                        kw["to_end"] = extras[ek][0]

                    def ref():
                        flat = m.map(numpy.ravel)
                        d = flat.map(lambda c: c[1:] - c[:-1])
                        parts = ([extras[bk][1].map(numpy.ravel)] if bk != "absent" else []) + [d] + (
                            [extras[ek][1].map(numpy.ravel)] if ek != "absent" else [])
                        return C09.vmap_multi(lambda cs: numpy.concatenate(cs), parts)
                    tags = [f"to_begin={bk}", f"to_end={ek}", f"size={int(numpy.prod(shape))}",
                            "empty_result" if int(numpy.prod(shape)) == 1 else "nonempty_result"]  # the difference part is empty
                    forms = [("numpoly", lambda: numpoly.ediff1d(p, **kw)), ("numpy", lambda: numpy.ediff1d(p, **kw))]
                    if "to_end" in kw:
                        posargs = [kw["to_end"]] + ([kw["to_begin"]] if "to_begin" in kw else [])   # numpy's order: (ary, to_end, to_begin)
                        forms += [("numpoly positional", lambda: numpoly.ediff1d(p, *posargs)), ("numpy positional", lambda: numpy.ediff1d(p, *posargs))]
                    for sp_, f in forms:
                        judge(R, f"ediff1d[{sp_}] to_begin={bk} to_end={ek} on {shape}/{rot}/{var}", "ediff1d", f, ref, tags + [f"variant={var}"])
    elif k == "innerouter":
        R.state("innerouter")
        for la, lb in itertools.product((1, 2, 3), repeat=2):
            for ra, rb in ((0, 1), (1, 4), (2, 0)):
                for nb, va, vb in ((("q0", "q1"), "canon", "canon"), (("q1", "q2"), "canon", "canon"), (("q1", "q2"), "rev", "slice"), (("q0", "q1"), "slice", "rev")):
                    spa, spb = filled((la,), ra, variant=va), filled((lb,), rb, names=nb, variant=vb)
                    a, b = build_checked(spa), build_checked(spb)
                    ma, mb = to_obj(model_of(spa)), to_obj(model_of(spb))
                    for sp_, f in (("numpoly", lambda: numpoly.outer(a, b)), ("numpy", lambda: numpy.outer(a, b))):
                        judge(R, f"outer[{sp_}] {la}x{lb} {ra},{rb},{nb},{va},{vb}", "outer", f, lambda: numpy.outer(ma, mb), ["outer"])
                    if la == lb:
                        for sp_, f in (("numpoly", lambda: numpoly.inner(a, b)), ("numpy", lambda: numpy.inner(a, b))):
                            judge(R, f"inner[{sp_}] {la} {ra},{rb},{nb},{va},{vb}", "inner", f, lambda: numpy.inner(ma, mb), ["inner", "vectors"])
        # outer of matrices (numpy flattens) and of numbers
        spa, spb = filled((2, 2), 0), filled((3,), 1)
        a, b = build_checked(spa), build_checked(spb)
        judge(R, "outer 2x2 with 3", "outer", lambda: numpoly.outer(a, b),
              lambda: numpy.outer(to_obj(model_of(spa)), to_obj(model_of(spb))), ["outer"])
        judge(R, "outer poly with numbers", "outer", lambda: numpoly.outer(b, [1, 2]),
              lambda: numpy.outer(to_obj(model_of(spb)), numpy.array([1, 2], dtype=object)), ["outer"])
    elif k == "matmul":
        R.state("matmul")
        shapes = [(1,), (2,), (3,), (1, 1), (2, 2), (2, 3), (3, 2), (2, 2, 2), (1, 2, 2), (2, 1, 2), (3, 1)]
        for sa, sb in itertools.product(shapes, repeat=2):
            for ra, rb, nb, va, vb in ((0, 1, ("q0", "q1"), "canon", "canon"), (1, 3, ("q1", "q2"), "canon", "canon"),
                                       (1, 3, ("q0", "q1"), "T", "rev"), (0, 2, ("q1", "q2"), "rev", "F")):
                va = va if va not in ("T", "F") or len(sa) >= 2 else "rev"
                vb = vb if vb not in ("T", "F") or len(sb) >= 2 else "rev"
                spa, spb = filled(sa, ra, variant=va), filled(sb, rb, names=nb, variant=vb)
                a, b = build_checked(spa), build_checked(spb)
                ma, mb = to_obj(model_of(spa)), to_obj(model_of(spb))
                tags = [f"x1_ndim={len(sa)}", f"x2_ndim={len(sb)}"] + (["vector_operand"] if 1 in (len(sa), len(sb)) else [])
                for sp_, f in (("numpoly", lambda: numpoly.matmul(a, b)), ("numpy", lambda: numpy.matmul(a, b)),
                               ("operator", lambda: a @ b)):
                    judge(R, f"matmul[{sp_}] {sa}@{sb} {ra},{rb} {va},{vb},{nb}", "matmul", f, lambda: numpy.matmul(ma, mb), tags)
                if ra == 0 and va == "canon":
                    nums = numpy.arange(int(numpy.prod(sb))).reshape(sb) - 1
                    judge(R, f"matmul poly {sa} @ ndarray {sb}", "matmul", lambda: a @ nums,
                          lambda: numpy.matmul(ma, nums.astype(object)), tags + ["numeric_operand"])
                    nums2 = numpy.arange(int(numpy.prod(sa))).reshape(sa) - 1
                    judge(R, f"matmul ndarray {sa} @ poly {sb}", "matmul", lambda: nums2 @ b,
                          lambda: numpy.matmul(nums2.astype(object), mb), tags + ["numeric_operand"])
    elif k == "det":
        d = case["d"]
        R.state(("det", d))
        for lead in [(), (2,), (1, 2)]:
            for rot, var in ((0, "canon"), (1, "canon"), (2, "canon"), (3, "canon"), (1, "T"), (2, "rev"), (3, "F")):
                sp = filled(lead + (d, d), rot, variant=var)
                p, m = build_checked(sp), model_of(sp)
                mo = to_obj(m)

                def ref():
                    out = numpy.empty(lead, dtype=object)
                    for idx in numpy.ndindex(*lead):
                        mat = mo[idx]
                        tot = V.const(0)
                        for perm in itertools.permutations(range(d)):
                            sign = 1
                            for i in range(d):
                                for j in range(i + 1, d):
                                    if perm[i] > perm[j]:
                                        sign = -sign
                            term = V.const(sign)
                            for i in range(d):
                                term = term * mat[i, perm[i]]
                            tot = tot + term
                        out[idx] = tot
                    return out
                tags = [f"dim={d}", "stacked" if lead else "single"]
                for sp_, f in (("numpoly", lambda: numpoly.det(p)), ("numpy", lambda: numpy.linalg.det(p))):
                    judge(R, f"det[{sp_}] {lead + (d, d)}/{rot}/{var}", "det", f, ref, tags)
    else:
        raise KeyError(k)
