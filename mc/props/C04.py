"""C04  Alignment changes representation only (E1 over all tuples of a 14-element pool)."""
import itertools

import numpy

from .. import tree  # noqa: F401
import numpoly

from ..alpha import alpha, build_checked, model_of, spec, wellformed, raw_view
from ..model import V, name_index
from ..snap import snap, describe_change
from .. import space
from . import C01, C09

ID = "C04"
CASE_BUDGET_S = 900
FUNCS = ["align_polynomials", "align_shape", "align_indeterminants", "align_exponents"]

META = {
    "rule": "(tuples of length<=2 additionally under all 4 settings of retain_coefficients/retain_names) all tuples of 1-3 (thorough: 4) polynomial-likes with broadcastable shapes from a 14-element pool crossing name "
            "sets (incl. q10 vs q2), term sets, shapes (0-d..2-d, size-1 axes), dtypes (int/float/complex), representations "
            "(views, redundant zero terms) and kinds (polynomial, Python number, ndarray, list) x the four alignment "
            "functions; outputs fed back in (idempotence); argument snapshots. distinct = (function, tuple).",
    "bounds": lambda tier: {"pool": 14, "max_tuple": 3 if tier == "quick" else 4},
    "assumptions": ["union of names ordered by numeric suffix is the documented 'index order'"],
}


def pool():
    s = spec
    items = [
        ("p", s(("q0",), (), [((1,), 1)])),
        ("p", s(("q1", "q2"), (), [((1, 1), 1), ((0, 0), 1)])),
        ("p", s(("q2", "q10"), (), [((0, 2), 1), ((1, 0), -1)])),
        ("p", C09.tagged((2,), 0, ("q0", "q1"))),
        ("p", space.array_spec(("q1", "q2"), (2, 1), [[((1, 0), 0.5)], [((0, 2), -1.5), ((0, 0), 2.0)]], "f8")),
        ("p", space.array_spec(("q0",), (1, 3), [[((1,), 1j)], [((0,), 2)], [((2,), -1 + 2j), ((1,), 1)]], "c16")),
        ("p", C09.tagged((2, 3), 10, ("q0", "q1", "q2", "q10"))),
        ("s", 3), ("s", 0.5),
        ("a", [1, 0, -2]), ("l", [1, 2]),
        ("p", C09.tagged((2,), 20, ("q0", "q1"), variant="zeroterm")),
        ("p", C09.tagged((2, 2), 30, ("q0", "q2"), variant="T")),
        ("p", s(("q1",), (), [])),
        # infinite coefficients; boolean and narrow integer coefficients without a constant term
        ("p", s(("q0", "q1"), (2,), [((1, 0), [float("inf"), 2.0]), ((0, 1), [1.0, -float("inf")])], "f8")),
        ("p", s(("q1",), (), [((2,), float("inf")), ((0,), 1.0)], "f8")),
        ("p", s(("q0", "q2"), (2,), [((1, 0), [True, False]), ((1, 1), [True, True])], "?")),
        ("p", s(("q1",), (1,), [((3,), [100])], "i1")),
    ]
    return items


def make(item):
    kind, x = item
    if kind == "p":
        return build_checked(x), model_of(x)
    if kind == "s":
        return x, V.const(x)
    if kind == "a":
        a = numpy.array(x)
        return a, V.const(a)
    return list(x), V.const(numpy.array(x))


def shape_of(item):
    kind, x = item
    if kind == "p":
        return tuple(x["s"])
    if kind == "s":
        return ()
    return numpy.shape(x)


def cases(tier, seed):
    items = pool()
    n = len(items)
    out = []
    maxk = 3 if tier == "quick" else 4
    for k in range(1, maxk + 1):
        for first in range(n):
            if k <= 2:
                out.append({"k": "tuples", "len": k, "first": [first]})
            else:
                for second in range(n):
                    out.append({"k": "tuples", "len": k, "first": [first, second]})
    nw = len(space.wide_specs())
    for i in range(nw):
        out.append({"k": "wide", "i": i})
    return out


def attrs(p):
    return (tuple(p.names), tuple(map(tuple, p.exponents.tolist())), tuple(str(k) for k in p.keys), tuple(p.shape),
            str(p.dtype), raw_view(p).tobytes())


def run_case(case, R):
    items = pool()
    n = len(items)
    rest = case["len"] - len(case["first"])
    for tail in itertools.product(range(n), repeat=rest):
        idxs = list(case["first"]) + list(tail)
        shapes = [shape_of(items[i]) for i in idxs]
        try:
            bshape = numpy.broadcast_shapes(*shapes)
        except ValueError:
            R.stat("not_broadcastable")
            continue
        R.state(tuple(idxs))
        for fname in FUNCS:
            one_call(R, fname, idxs, items, bshape)
            if case["len"] <= 2:
                # the same under the other settings of the two retain options (alignment must not depend on them)
                for rc, rn in ((False, False), (True, True), (True, False)):
                    with numpoly.global_options(retain_coefficients=rc, retain_names=rn):
                        one_call(R, fname, idxs, items, bshape, cfg=[rc, rn])
    R.sample({"tuple_of_pool_indices": idxs, "functions": FUNCS})


def one_call(R, fname, idxs, items, bshape, cfg=None):
    R.tr()
    made = [make(items[i]) for i in idxs]
    args = [a for a, _ in made]
    models = [m for _, m in made]
    before = [snap(a) for a in args]
    tags = [f"fn={fname}", f"n={len(idxs)}"] + ([f"retain_coefficients={cfg[0]}", f"retain_names={cfg[1]}"] if cfg else [])
    sub = {"k": "one", "fn": fname, "idxs": idxs, "cfg": cfg}
    f = getattr(numpoly, fname)
    try:
        outs = f(*args)
    except Exception as err:  # noqa: BLE001
        R.fail(fname, "exception", f"{type(err).__name__}: {err} for pool items {idxs}", tags=tags, sub=sub)
        return
    after = [snap(a) for a in args]
    for i, (b, a) in enumerate(zip(before, after)):
        if b != a:
            R.fail(fname, "argument-modified", f"argument {i} of pool items {idxs}: {describe_change(b, a)}", tags=tags, sub=sub)
    probs = []
    if not isinstance(outs, (tuple, list)) or len(outs) != len(args):
        R.fail(fname, "wrong-value", f"returned {type(outs).__name__} of length {len(outs) if hasattr(outs, '__len__') else '?'}", tags=tags, sub=sub)
        return
    shape_aligned = fname in ("align_shape", "align_polynomials")
    for i, (o, m) in enumerate(zip(outs, models)):
        if not isinstance(o, numpoly.ndpoly):
            probs.append(f"output {i} is {type(o).__name__}")
            continue
        w = wellformed(o)
        if w:
            probs.append(f"output {i} ill-formed: {w}")
            continue
        exp = m.map(lambda c: numpy.broadcast_to(c, bshape)) if shape_aligned else m
        if alpha(o) != exp:
            probs.append(f"output {i}: value {alpha(o)!r} != input {exp!r}")
        elif isinstance(args[i], numpoly.ndpoly) and o.dtype != args[i].dtype:
            probs.append(f"output {i}: coefficient dtype {o.dtype} != the input's {args[i].dtype}")
    polys = [o for o in outs if isinstance(o, numpoly.ndpoly)]
    if not probs and len(polys) == len(outs):
        if shape_aligned and any(tuple(o.shape) != tuple(bshape) for o in outs):
            probs.append(f"shapes {[o.shape for o in outs]} != broadcast shape {bshape}")
        if fname in ("align_indeterminants", "align_exponents", "align_polynomials"):
            union = sorted({nm for a in args if isinstance(a, numpoly.ndpoly) for nm in a.names}, key=name_index)
            if any(isinstance(a, numpoly.ndpoly) for a in args):
                # numbers/arrays contribute the default name of a constant polynomial
                extra = sorted({nm for o in outs for nm in o.names} - set(union), key=name_index)
                want = tuple(sorted(set(union) | set(extra), key=name_index))
                if extra and extra != ["q0"]:
                    probs.append(f"names {outs[0].names} contain names not in any input: {extra}")
                if any(tuple(o.names) != want for o in outs):
                    probs.append(f"names {[o.names for o in outs]} are not all the ordered union {want}")
            elif len({tuple(o.names) for o in outs}) != 1:
                probs.append(f"names differ: {[o.names for o in outs]}")
        if fname in ("align_exponents", "align_polynomials"):
            e0 = outs[0].exponents.tolist()
            k0 = [str(k) for k in outs[0].keys]
            for i, o in enumerate(outs):
                if o.exponents.tolist() != e0 or [str(k) for k in o.keys] != k0:
                    probs.append(f"output {i} exponents/keys differ from output 0: {o.exponents.tolist()} vs {e0}")
    if probs:
        R.fail(fname, "wrong-value", "; ".join(probs)[:500] + f" for pool items {idxs}", tags=tags, sub=sub)
        return
    # idempotence: aligning aligned arguments changes nothing
    a1 = [attrs(o) for o in outs]
    try:
        outs2 = f(*outs)
    except Exception as err:  # noqa: BLE001
        R.fail(fname, "exception", f"second application: {type(err).__name__}: {err} for pool items {idxs}", tags=tags + ["idempotence"], sub=sub)
        return
    R.tr()
    a2 = [attrs(o) for o in outs2]
    if a1 != a2:
        which = [i for i, (x, y) in enumerate(zip(a1, a2)) if x != y]
        what = [n for n, x, y in zip(["names", "exponents", "keys", "shape", "dtype", "bytes"], a1[which[0]], a2[which[0]]) if x != y]
        R.fail(fname, "not-idempotent", f"second application changed {what} of output {which} for pool items {idxs}",
               tags=tags + ["idempotence"], sub=sub)
    if [attrs(o) for o in outs] != a1:
        R.fail(fname, "argument-modified", f"second application modified its (aligned) arguments, pool items {idxs}",
               tags=tags + ["idempotence"], sub=sub)
    R.outcome((fname, tuple(idxs)))


def run_one(case, R):
    items = pool()
    shapes = [shape_of(items[i]) for i in case["idxs"]]
    if case.get("cfg"):
        with numpoly.global_options(retain_coefficients=case["cfg"][0], retain_names=case["cfg"][1]):
            one_call(R, case["fn"], case["idxs"], items, numpy.broadcast_shapes(*shapes), cfg=case["cfg"])
    else:
        one_call(R, case["fn"], case["idxs"], items, numpy.broadcast_shapes(*shapes))


_run_case = run_case


def run_wide(case, R):
    ws = space.wide_specs()
    items = [("p", sp) for _, sp in ws]
    i = case["i"]
    for j in range(len(items)):
        R.state(("wide", i, j))
        for fname in FUNCS:
            one_call(R, fname, [i, j], items, ())


def run_case(case, R):  # noqa: F811
    if case["k"] == "wide":
        return run_wide(case, R)
    if case["k"] == "one":
        run_one(case, R)
    else:
        _run_case(case, R)
