"""C12  Coefficient values survive every dtype; no uninitialised memory is returned (E1 x poison)."""
import itertools

import numpy

from .. import tree  # noqa: F401
import numpoly

from ..alpha import alpha, build_checked, build, model_of, spec, wellformed, raw_view
from ..model import V
from ..snap import snap
from .. import space, hooks

ID = "C12"
CASE_BUDGET_S = 900

DTYPES = ["?", "i1", "i2", "i4", "i8", "u1", "u2", "u4", "u8", "f2", "f4", "f8", "c8", "c16"]
SWAPPED = [">i2", ">i8", ">u4", ">f4", ">f8", ">c16"]       # non-native byte order (same values, other storage)

META = {
    "rule": "14 numeric dtypes (+ 6 byte-swapped ones) (bool, 8 integer widths, float16/32/64, complex64/128): construction from data of each dtype "
            "(ndarray, list of numpy scalars, dict, attributes), dtype= requests for all 14x14 (source, target) pairs through "
            "polynomial / aspolynomial / polynomial_from_attributes / astype, variable/symbols/monomial with dtype=; all ordered "
            "dtype pairs x {+,-,*,**2, where, concatenate, stack} on polynomials with cross terms; per dtype: indexing, 12 shape "
            "functions, diff, ediff1d, cumsum/sum, set_dimensions, decompose, copy/pickle, result_type/common_type; results with "
            "no surviving term (full cancellation, all terms filtered, 0-d). Every case runs twice with freshly allocated buffers "
            "pre-filled with 0xA5 and 0x5A: values must equal numpy's own result on plain arrays (dtype included) and the two "
            "runs must be byte-identical. distinct = (operation, dtype or dtype pair).",
    "bounds": {"dtypes": DTYPES, "poison_bytes": ["0xA5", "0x5A"]},
    "assumptions": ["values kept small (|x|<=5) so that nothing overflows in any dtype; numpy's own casting/promotion on plain "
                    "arrays is the oracle; comparisons of float16/float32 results are exact because the values are dyadic"],
}


def data(dt, n=3, off=0):
    base = [1, 2, 3, 0, 2, 1, 3]
    if dt == "?":
        return numpy.array([bool((i + off) % 2) for i in range(n)], dtype=dt)
    if dt.startswith("c"):
        return numpy.array([complex(base[(i + off) % 7], (i + off) % 3 - 1) for i in range(n)], dtype=dt)
    if dt.startswith("f"):
        return numpy.array([base[(i + off) % 7] * 0.5 for i in range(n)], dtype=dt)
    if dt.startswith("i"):
        return numpy.array([base[(i + off) % 7] * (-1) ** i for i in range(n)], dtype=dt)
    return numpy.array([base[(i + off) % 7] for i in range(n)], dtype=dt)


def poly_of(dt, off=0, names=("q0", "q1"), n=3):
    """c0 + c1*q0 + c2*q0*q1 with coefficient arrays of dtype dt; returns (ndpoly, {exps: array})"""
    cols = {(0, 0): data(dt, n, off), (1, 0): data(dt, n, off + 1), (1, 1): data(dt, n, off + 2)}
    sp = {"n": list(names), "s": [n], "d": dt, "t": [], "v": "canon"}
    p = numpoly.ndpoly(exponents=sorted(cols), shape=(n,), names=names, dtype=dt)
    raw = raw_view(p)
    for key, e in zip(p.keys, sorted(cols)):
        raw[key] = cols[e]
    return p, cols


def coef_dict(p):
    """exps -> coefficient array (as stored), zero columns dropped"""
    out = {}
    for e, c in zip(p.exponents.tolist(), p.coefficients):
        c = numpy.asarray(c)
        if numpy.any(c != 0):
            out[tuple(e)] = c
    return out


def compare_cols(got, want_cols, want_dtype, names_got, names_want=("q0", "q1")):
    """got: ndpoly. want_cols: {exps (over names_want): array}. returns complaints"""
    probs = []
    if not isinstance(got, numpoly.ndpoly):
        return [f"result type {type(got).__name__}"]
    w = wellformed(got)
    if w:
        return [f"ill-formed: {w}"]
    # byte order is storage, not type: numpy itself returns native-order results for most operations on swapped input
    if want_dtype is not None and got.dtype.newbyteorder("=") != numpy.dtype(want_dtype).newbyteorder("="):
        probs.append(f"dtype {got.dtype} != numpy's {numpy.dtype(want_dtype)}")
    g = {}
    for e, c in coef_dict(got).items():
        key = frozenset((n, x) for n, x in zip(got.names, e) if x)
        g[key] = c
    wdict = {}
    for e, c in want_cols.items():
        c = numpy.asarray(c)
        if numpy.any(c != 0):
            wdict[frozenset((n, x) for n, x in zip(names_want, e) if x)] = c
    for key in set(g) | set(wdict):
        a, b = g.get(key), wdict.get(key)
        if a is None or b is None:
            probs.append(f"term {sorted(key)}: got {None if a is None else a.tolist()} expected {None if b is None else b.tolist()}")
            continue
        if a.dtype.kind in "iub" and b.dtype.kind in "iub":     # integers are compared as integers (beyond 2**53 a float cannot tell them apart)
            same = a.shape == b.shape and a.astype(object).tolist() == b.astype(object).tolist()
        else:
            same = a.shape == b.shape and numpy.array_equal(a.astype(complex), b.astype(complex))
        if not same:
            probs.append(f"term {sorted(key)}: values {a.tolist()} != numpy's {b.tolist()}")
    return probs


def _square(cols):
    out = {}
    with numpy.errstate(all="ignore"):
        for e1 in cols:
            for e2 in cols:
                e = tuple(x + y for x, y in zip(e1, e2))
                t = cols[e1] * cols[e2]
                out[e] = out[e] + t if e in out else t
    return out


def twice(R, op, label, f, check, tags, sub=None):
    """run f under both poison bytes; check(result) -> complaints on the first; byte-identical on both"""
    R.tr()
    outs = []
    for byte in (0xA5, 0x5A):
        hooks.poison(byte)
        try:
            try:
                outs.append(("ok", f()))
            except Exception as err:  # noqa: BLE001
                outs.append(("exc", err))
        finally:
            hooks.poison(None)
    if outs[0][0] == "exc":
        R.fail(op, "exception", f"{label}: {type(outs[0][1]).__name__}: {str(outs[0][1])[:200]}", tags=tags, sub=sub)
        return
    try:
        probs = check(outs[0][1])
    except Exception as err:  # noqa: BLE001
        probs = [f"result unreadable: {type(err).__name__}: {err}"]
    if probs:
        R.fail(op, "wrong-value", f"{label}: " + "; ".join(probs)[:420], tags=tags, sub=sub)
        return
    if outs[1][0] != "ok" or snap(outs[0][1]) != snap(outs[1][1]):
        R.fail(op, "uninitialised-memory", f"{label}: results differ between buffer pre-fill 0xA5 and 0x5A: "
               f"{str(outs[0][1])[:100]} vs {str(outs[1][1])[:100]}", tags=tags, sub=sub)
        return
    R.outcome((op, label))


def cases(tier, seed):
    out = []
    for dt in DTYPES + SWAPPED:
        out.append({"k": "construct", "d": dt})
        out.append({"k": "perdtype", "d": dt})
        out.append({"k": "pairs", "d": dt})
    for dt in DTYPES:
        out.append({"k": "layouts", "d": dt})
        out.append({"k": "mixedlists", "d": dt})
    out.append({"k": "empty"})
    out.append({"k": "mixedcoefs"})
    return out


def run_case(case, R):
    k = case["k"]
    if k == "construct":
        src = case["d"]
        R.state(("construct", src))
        arr = data(src, 3)
        tags = [f"src={src}"]
        # from data of that dtype
        for label, f in (("polynomial(ndarray)", lambda: numpoly.polynomial(arr.copy())),
                         ("aspolynomial(ndarray)", lambda: numpoly.aspolynomial(arr.copy())),
                         ("polynomial(list of numpy scalars)", lambda: numpoly.polynomial(list(arr))),
                         ("polynomial(2-d)", lambda: numpoly.polynomial(numpy.stack([arr, arr]))),
                         ("polynomial(0-d)", lambda: numpoly.polynomial(arr[1])),
                         ("polynomial(numpy scalar)", lambda: numpoly.polynomial(arr.dtype.type(arr[2])))):
            want = {"polynomial(2-d)": numpy.stack([arr, arr]), "polynomial(0-d)": arr[1],
                    "polynomial(numpy scalar)": numpy.asarray(arr[2])}.get(label, arr)
            twice(R, label, f"{label} from {src}", f, lambda got, want=want: compare_cols(got, {(0, 0): numpy.asarray(want)}, src, None), tags)
        twice(R, "from_attributes", f"attributes {src}",
              lambda: numpoly.polynomial_from_attributes([(0, 0), (1, 0), (1, 1)], [data(src, 3, 0), data(src, 3, 1), data(src, 3, 2)], ("q0", "q1")),
              lambda got: compare_cols(got, {(0, 0): data(src, 3, 0), (1, 0): data(src, 3, 1), (1, 1): data(src, 3, 2)}, src, None), tags)
        twice(R, "from_attributes", f"attributes mixed list first={src}",
              lambda: numpoly.polynomial_from_attributes([(0,), (1,)], [data(src, 3, 0), data("f8" if src != "f8" else "i8", 3, 1)], ("q0",)),
              lambda got: compare_cols(got, {(0, 0): data(src, 3, 0), (1, 0): data("f8" if src != "f8" else "i8", 3, 1).astype(src)}, src, None), tags + ["mixed_list"])
        twice(R, "dict", f"polynomial(dict) {src}", lambda: numpoly.polynomial({(0, 0): data(src, 3, 0), (1, 1): data(src, 3, 2)}),
              lambda got: compare_cols(got, {(0, 0): data(src, 3, 0), (1, 1): data(src, 3, 2)}, src, None), tags)
        # dtype= requests for every target
        p, cols = poly_of(src)
        for tgt in DTYPES:
            tg = tags + [f"tgt={tgt}"]
            with numpy.errstate(all="ignore"):
                want = {e: c.astype(tgt) for e, c in cols.items()}
                wantarr = arr.astype(tgt)
            twice(R, "polynomial(x,dtype)", f"polynomial({src} ndarray, dtype={tgt})", lambda: numpoly.polynomial(arr.copy(), dtype=tgt),
                  lambda got: compare_cols(got, {(0, 0): wantarr}, tgt, None), tg)
            twice(R, "aspolynomial(x,dtype)", f"aspolynomial({src} ndarray, dtype={tgt})", lambda: numpoly.aspolynomial(arr.copy(), dtype=tgt),
                  lambda got: compare_cols(got, {(0, 0): wantarr}, tgt, None), tg)
            twice(R, "polynomial(poly,dtype)", f"polynomial({src} poly, dtype={tgt})", lambda: numpoly.polynomial(p, dtype=tgt),
                  lambda got: compare_cols(got, want, tgt, None), tg)
            twice(R, "aspolynomial(poly,dtype)", f"aspolynomial({src} poly, dtype={tgt})", lambda: numpoly.aspolynomial(p, dtype=tgt),
                  lambda got: compare_cols(got, want, tgt, None), tg)
            for nlab, nm in (("names tuple", ("q0", "q1")), ("names list", ["q0", "q1"]), ("names=indeterminants", p.indeterminants), ("names='q'", "q")):
                twice(R, "aspolynomial(poly,names,dtype)", f"aspolynomial({src} poly, {nlab}, dtype={tgt})",
                      lambda: numpoly.aspolynomial(p, names=nm, dtype=tgt), lambda got: compare_cols(got, want, tgt, None), tg + ["names_given"])
                twice(R, "polynomial(poly,names,dtype)", f"polynomial({src} poly, {nlab}, dtype={tgt})",
                      lambda: numpoly.polynomial(p, names=nm if not isinstance(nm, str) else ("q0", "q1"), dtype=tgt),
                      lambda got: compare_cols(got, want, tgt, None), tg + ["names_given"])
            # nested lists (rows, rows of rows) with a dtype request
            nested = numpy.stack([arr, arr[::-1]])
            with numpy.errstate(all="ignore"):
                wantn = nested.astype(tgt)
            twice(R, "polynomial(nested list,dtype)", f"polynomial(2-d list of {src}, dtype={tgt})", lambda: numpoly.polynomial([list(r) for r in nested], dtype=tgt),
                  lambda got: compare_cols(got, {(0, 0): wantn}, tgt, None), tg + ["nested_list"])
            twice(R, "polynomial(nested list,dtype)", f"polynomial(3-d list of {src}, dtype={tgt})", lambda: numpoly.polynomial([[list(r) for r in nested]], dtype=tgt),
                  lambda got: compare_cols(got, {(0, 0): wantn[None]}, tgt, None), tg + ["nested_list"])
            twice(R, "aspolynomial(nested list,dtype)", f"aspolynomial(2-d list of {src}, dtype={tgt})", lambda: numpoly.aspolynomial([list(r) for r in nested], dtype=tgt),
                  lambda got: compare_cols(got, {(0, 0): wantn}, tgt, None), tg + ["nested_list"])
            twice(R, "polynomial(nested list of polys,dtype)", f"polynomial([[{src} poly elements]], dtype={tgt})", lambda: numpoly.polynomial([[p[0], p[1]], [p[2], p[0]]], dtype=tgt),
                  lambda got: compare_cols(got, {e: numpy.array([[c[0], c[1]], [c[2], c[0]]]) for e, c in want.items()}, tgt, None), tg + ["nested_list"])
            twice(R, "astype", f"({src} poly).astype({tgt})", lambda: p.astype(tgt), lambda got: compare_cols(got, want, tgt, None), tg)
            twice(R, "from_attributes(dtype)", f"from_attributes({src}, dtype={tgt})",
                  lambda: numpoly.polynomial_from_attributes(sorted(cols), [cols[e] for e in sorted(cols)], ("q0", "q1"), dtype=tgt),
                  lambda got: compare_cols(got, want, tgt, None), tg)
        one = numpy.ones((), dtype=src)
        twice(R, "variable", f"variable(2, dtype={src})", lambda: numpoly.variable(2, dtype=src),
              lambda got: compare_cols(got, {(1, 0): numpy.array([1, 0]).astype(src), (0, 1): numpy.array([0, 1]).astype(src)}, src, None), tags)
        twice(R, "symbols", f"symbols('q0 q1', dtype={src})", lambda: numpoly.symbols("q0 q1", dtype=src),
              lambda got: compare_cols(got, {(1, 0): numpy.array([1, 0]).astype(src), (0, 1): numpy.array([0, 1]).astype(src)}, src, None), tags)
        R.sample({"source_dtype": src, "targets": DTYPES})
    elif k == "pairs":
        da = case["d"]
        R.state(("pairs", da))
        for db in DTYPES:
            a, ca = poly_of(da, 0)
            b, cb = poly_of(db, 3)
            tags = [f"a={da}", f"b={db}"]
            with numpy.errstate(all="ignore"):
                keys = sorted(ca)
                wadd = {e: ca[e] + cb[e] for e in keys}
                wsub = None
                try:
                    wsub = {e: ca[e] - cb[e] for e in keys}
                except TypeError:
                    pass   # numpy: boolean subtract is not supported
                wmul = {}
                for e1 in keys:
                    for e2 in keys:
                        e = tuple(x + y for x, y in zip(e1, e2))
                        t = ca[e1] * cb[e2]
                        wmul[e] = wmul[e] + t if e in wmul else t
                rdt = numpy.result_type(ca[keys[0]], cb[keys[0]])
            twice(R, "add", f"{da} + {db}", lambda: a + b, lambda got: compare_cols(got, wadd, wadd[keys[0]].dtype, None), tags)
            # operands that carry an all-zero term (the constant one, or a non-constant one as alignment leaves them): the product has keys
            # that only such a term reaches
            for zi, zlabel in ((0, "zero constant term"), (1, "zero q0 term"), (2, "zero q0*q1 term")):
                az, caz = poly_of(da, 0)
                raw_view(az)[az.keys[zi]] = 0
                caz = dict(caz)
                caz[sorted(caz)[zi]] = numpy.zeros_like(caz[sorted(caz)[zi]])
                with numpy.errstate(all="ignore"):
                    wz = {}
                    for e1 in keys:
                        for e2 in keys:
                            e = tuple(x + y for x, y in zip(e1, e2))
                            t = caz[e1] * cb[e2]
                            wz[e] = wz[e] + t if e in wz else t
                twice(R, "multiply", f"{da} ({zlabel}) * {db}", lambda: az * b, lambda got: compare_cols(got, wz, wz[(0, 0)].dtype, None), tags + ["zero_term_operand"])
                twice(R, "multiply", f"{db} * {da} ({zlabel})", lambda: b * az, lambda got: compare_cols(got, wz, wz[(0, 0)].dtype, None), tags + ["zero_term_operand"])
                twice(R, "multiply", f"{da} ({zlabel}) squared", lambda: az * az, lambda got: compare_cols(got, {e_: c_ for e_, c_ in _square(caz).items()}, None, None), tags + ["zero_term_operand"])
                twice(R, "add", f"{da} ({zlabel}) + {db}", lambda: az + b, lambda got: compare_cols(got, {e: caz[e] + cb[e] for e in keys}, wadd[keys[0]].dtype, None), tags + ["zero_term_operand"])
            if wsub is not None:
                twice(R, "subtract", f"{da} - {db}", lambda: a - b, lambda got: compare_cols(got, wsub, wsub[keys[0]].dtype, None), tags)
            twice(R, "multiply", f"{da} * {db}", lambda: a * b, lambda got: compare_cols(got, wmul, wmul[(0, 0)].dtype, None), tags)
            twice(R, "where", f"where {da},{db}", lambda: numpoly.where([True, False, True], a, b),
                  lambda got: compare_cols(got, {e: numpy.where([True, False, True], ca[e], cb[e]) for e in keys}, rdt, None), tags)
            twice(R, "concatenate", f"concatenate {da},{db}", lambda: numpoly.concatenate([a, b]),
                  lambda got: compare_cols(got, {e: numpy.concatenate([ca[e], cb[e]]) for e in keys}, rdt, None), tags)
            twice(R, "stack", f"stack {da},{db}", lambda: numpoly.stack([a, b]),
                  lambda got: compare_cols(got, {e: numpy.stack([ca[e], cb[e]]) for e in keys}, rdt, None), tags)
            # scalar of dtype db times / plus polynomial of dtype da
            sc = numpy.dtype(db).type(2) if db != "?" else numpy.bool_(True)
            with numpy.errstate(all="ignore"):
                wsm = {e: sc * ca[e] for e in keys}
                wsa = {e: (ca[e] + sc if e == (0, 0) else ca[e] + numpy.zeros((), dtype=db)) for e in keys}
            # differences with an edge value / concatenations with a number of the other dtype
            if da != "?" and db != "?":
                with numpy.errstate(all="ignore"):
                    wdp = {e: numpy.diff(ca[e], prepend=(sc if e == (0, 0) else numpy.zeros((), dtype=db))) for e in keys}
                    wda = {e: numpy.diff(ca[e], append=(sc if e == (0, 0) else numpy.zeros((), dtype=db))) for e in keys}
                    try:
                        wed = {e: numpy.ediff1d(ca[e], to_end=(numpy.array([sc]) if e == (0, 0) else numpy.zeros(1, dtype=db))) for e in keys}
                    except TypeError:
                        wed = None
                twice(R, "diff", f"diff({da} poly, prepend=numpy.{db}(2))", lambda: numpoly.diff(a, prepend=sc), lambda got: compare_cols(got, wdp, wdp[(0, 0)].dtype, None), tags + ["edge_value"])
                twice(R, "diff", f"diff({da} poly, append=numpy.{db}(2))", lambda: numpoly.diff(a, append=sc), lambda got: compare_cols(got, wda, wda[(0, 0)].dtype, None), tags + ["edge_value"])
                twice(R, "diff", f"diff({da} poly, prepend={db} poly)", lambda: numpoly.diff(a, prepend=b[:1]),
                      lambda got: compare_cols(got, {e: numpy.diff(ca[e], prepend=cb[e][:1]) for e in keys}, rdt, None), tags + ["edge_value"])
                if wed is not None:
                    twice(R, "ediff1d", f"ediff1d({da} poly, to_end=numpy.{db}(2))", lambda: numpoly.ediff1d(a, to_end=sc), lambda got: compare_cols(got, wed, wed[(0, 0)].dtype, None), tags + ["edge_value"])
                try:   # numpy.ediff1d casts the edge values to the dtype of the array (same-kind casts only)
                    with numpy.errstate(all="ignore"):
                        web = {e: numpy.ediff1d(ca[e], to_begin=cb[e][:2]) for e in keys}
                except TypeError:
                    web = None
                if web is not None:
                    twice(R, "ediff1d", f"ediff1d({da} poly, to_begin={db} poly)", lambda: numpoly.ediff1d(a, to_begin=b[:2]),
                          lambda got: compare_cols(got, web, web[(0, 0)].dtype, None), tags + ["edge_value"])
            twice(R, "multiply", f"numpy.{db}(2) * {da} poly", lambda: sc * a, lambda got: compare_cols(got, wsm, wsm[(0, 0)].dtype, None), tags + ["numpy_scalar_left"])
            twice(R, "add", f"{da} poly + numpy.{db}(2)", lambda: a + sc, lambda got: compare_cols(got, wsa, wsa[(0, 0)].dtype, None), tags + ["numpy_scalar_right"])
        with numpy.errstate(all="ignore"):
            a, ca = poly_of(da, 0)
            keys = sorted(ca)
            wsq = {}
            for e1 in keys:
                for e2 in keys:
                    e = tuple(x + y for x, y in zip(e1, e2))
                    t = ca[e1] * ca[e2]
                    wsq[e] = wsq[e] + t if e in wsq else t
        twice(R, "power", f"({da})**2", lambda: a ** 2, lambda got: compare_cols(got, wsq, None, None), [f"a={da}"])
        twice(R, "negative", f"-({da})", lambda: -a, lambda got: compare_cols(got, {e: -c for e, c in ca.items()}, da, None), [f"a={da}"]) if da != "?" else None
    elif k == "perdtype":
        dt = case["d"]
        R.state(("per", dt))
        p, cols = poly_of(dt, 0, n=4)
        keys = sorted(cols)
        tags = [f"dtype={dt}"]
        unary = [
            ("getitem slice", lambda x: x[1:3], lambda c: c[1:3]), ("getitem int", lambda x: x[2], lambda c: c[2]),
            ("getitem fancy", lambda x: x[[3, 0]], lambda c: c[[3, 0]]), ("getitem mask", lambda x: x[numpy.array([True, False, True, False])], lambda c: c[[0, 2]]),
            ("reshape", lambda x: numpoly.reshape(x, (2, 2)), lambda c: c.reshape(2, 2)), ("transpose", lambda x: numpoly.transpose(numpoly.reshape(x, (2, 2))), lambda c: c.reshape(2, 2).T),
            ("repeat", lambda x: numpoly.repeat(x, 2, axis=0), lambda c: numpy.repeat(c, 2)), ("tile", lambda x: numpoly.tile(x, 2), lambda c: numpy.tile(c, 2)),
            ("expand_dims", lambda x: numpoly.expand_dims(x, 0), lambda c: c[None]), ("atleast_2d", lambda x: numpoly.atleast_2d(x), lambda c: numpy.atleast_2d(c)),
            ("split", lambda x: numpoly.split(x, 2)[1], lambda c: numpy.split(c, 2)[1]), ("diag", lambda x: numpoly.diag(x), lambda c: numpy.diag(c)),
            ("broadcast_arrays", lambda x: numpoly.broadcast_arrays(x, numpoly.reshape(x, (4, 1)))[0], lambda c: numpy.broadcast_to(c, (4, 4))),
            ("moveaxis", lambda x: numpoly.moveaxis(numpoly.reshape(x, (2, 2)), 0, 1), lambda c: numpy.moveaxis(c.reshape(2, 2), 0, 1)),
            ("concatenate self", lambda x: numpoly.concatenate([x, x]), lambda c: numpy.concatenate([c, c])),
            ("ravel", lambda x: x.ravel(), lambda c: c.ravel()), ("copy", lambda x: x.copy(), lambda c: c),
            ("polynomial(list(x))", lambda x: numpoly.polynomial(list(x)), lambda c: c), ("iteration [1]", lambda x: list(x)[1], lambda c: c[1]),
            ("full_like", lambda x: numpoly.full_like(x, x[1]), lambda c: numpy.full_like(c, c[1])),
            ("decompose[0]", lambda x: numpoly.decompose(x)[0], lambda c: None),
            ("set_dimensions 3", lambda x: numpoly.set_dimensions(x, 3), lambda c: c),
            ("clean_attributes", lambda x: numpoly.clean_attributes(x), lambda c: c),
            ("aspolynomial(values)", lambda x: numpoly.aspolynomial(x.values, names=x.names), lambda c: c),
        ]
        import pickle
        unary.append(("pickle", lambda x: pickle.loads(pickle.dumps(x)), lambda c: c))
        for label, g, h in unary:
            if label == "decompose[0]":
                twice(R, "decompose", f"decompose on {dt}", lambda: numpoly.decompose(p),
                      lambda got: ([] if got.dtype.newbyteorder("=") == numpy.dtype(dt).newbyteorder("=") else [f"dtype {got.dtype} != {dt}"]) + sum(
                          [compare_cols(got[i], {e: (cols[e] if sorted(cols).index(e) == i else numpy.zeros(4, dt)) for e in keys}, dt, None)
                           for i in range(len(keys))], []) if got.shape == (3, 4) else [f"shape {got.shape}"], tags)
                continue
            twice(R, label.split(" ")[0], f"{label} on {dt}", lambda: g(p), lambda got: compare_cols(got, {e: h(cols[e]) for e in keys}, dt, None), tags)
        if dt != "?":
            with numpy.errstate(all="ignore"):
                for label, g, h in (("diff", lambda x: numpoly.diff(x), lambda c: numpy.diff(c)), ("ediff1d", lambda x: numpoly.ediff1d(x), lambda c: numpy.ediff1d(c)),
                                    ("ediff1d to_begin=7", lambda x: numpoly.ediff1d(x, to_begin=7), None),
                                    ("cumsum", lambda x: numpoly.cumsum(x), lambda c: numpy.cumsum(c)), ("sum", lambda x: numpoly.sum(x), lambda c: numpy.sum(c)),
                                    ("diff prepend", lambda x: numpoly.diff(x, prepend=x[:1]), lambda c: numpy.diff(c, prepend=c[:1]))):
                    if h is None:
                        try:
                            want = {e: numpy.ediff1d(cols[e], to_begin=(7 if e == (0, 0) else 0)) for e in keys}
                        except TypeError:
                            continue   # numpy itself rejects to_begin=7 for this dtype
                    else:
                        want = {e: h(cols[e]) for e in keys}
                    twice(R, label.split(" ")[0], f"{label} on {dt}", lambda: g(p), lambda got, want=want: compare_cols(got, want, want[keys[0]].dtype, None), tags)
        # set_dimensions dropping a name with all its terms; results without surviving terms
        twice(R, "set_dimensions", f"set_dimensions({dt}, 1)", lambda: numpoly.set_dimensions(p, 1),
              lambda got: compare_cols(got, {(0, 0): cols[(0, 0)], (1, 0): cols[(1, 0)]}, dt, None), tags)
        z = numpy.zeros(4, dtype=dt)
        twice(R, "subtract", f"p - p ({dt})", lambda: p - p, lambda got: compare_cols(got, {}, None, None) + ([] if got.shape == (4,) else [f"shape {got.shape}"]), tags + ["no_surviving_term"]) if dt != "?" else None
        twice(R, "multiply", f"p * 0 ({dt})", lambda: p * 0, lambda got: compare_cols(got, {}, None, None) + ([] if got.shape == (4,) else [f"shape {got.shape}"]), tags + ["no_surviving_term"])
        q1only, _ = poly_of(dt, 0, names=("q0", "q1"), n=4)
        only_q1 = numpoly.ndpoly(exponents=[(0, 1), (1, 2)], shape=(4,), names=("q0", "q1"), dtype=dt)
        raw = raw_view(only_q1)
        for key in only_q1.keys:
            raw[key] = data(dt, 4, 1)
        twice(R, "set_dimensions", f"set_dimensions dropping every term ({dt})", lambda: numpoly.set_dimensions(only_q1, 1),
              lambda got: compare_cols(got, {}, None, None) + ([] if got.shape == (4,) else [f"shape {got.shape}"]), tags + ["no_surviving_term"])
        twice(R, "getitem", f"zero element of a 1-term poly ({dt})", lambda: (only_q1 * numpy.array([1, 0, 1, 0]).astype(dt))[1],
              lambda got: compare_cols(got, {}, None, None), tags + ["no_surviving_term"])
        twice(R, "result_type", f"result_type({dt} poly, {dt} poly)", lambda: numpoly.result_type(p, p), lambda got: [] if numpy.dtype(got).newbyteorder("=") == numpy.dtype(dt).newbyteorder("=") else [f"{got} != {dt}"], tags)
        twice(R, "common_type", f"common_type({dt} poly)", lambda: numpoly.common_type(p),
              lambda got: [] if (dt == "?" or got == numpy.common_type(cols[(0, 0)])) else [f"{got} != {numpy.common_type(cols[(0, 0)])}"], tags) if dt != "?" else None
    elif k == "layouts":
        # numeric sources in every memory layout: C, Fortran, transposed view, negative strides, broadcast (0 strides), read-only
        src = case["d"]
        R.state(("layouts", src))
        base = data(src, 6)
        c2 = base.reshape(2, 3).copy()
        lay = {
            "C": c2, "F": numpy.asfortranarray(c2), "T-view": base.reshape(3, 2).T.copy().T if False else numpy.ascontiguousarray(c2.T).T,
            "negative strides": numpy.ascontiguousarray(c2[::-1, ::-1])[::-1, ::-1], "broadcast": numpy.broadcast_to(base[:3], (2, 3)),
            "every other": numpy.repeat(c2, 2, axis=1)[:, ::2],
        }
        ro = c2.copy()
        ro.setflags(write=False)
        lay["read-only"] = ro
        q0 = numpoly.variable(1, dtype="i1")
        for lname, x in lay.items():
            assert x.shape == (2, 3)
            vals = numpy.array(x)
            tags = [f"src={src}", f"layout={lname}"]
            twice(R, "polynomial(ndarray)", f"polynomial({src} {lname})", lambda: numpoly.polynomial(x), lambda got: compare_cols(got, {(0, 0): vals}, src, None), tags)
            twice(R, "aspolynomial(ndarray)", f"aspolynomial({src} {lname})", lambda: numpoly.aspolynomial(x), lambda got: compare_cols(got, {(0, 0): vals}, src, None), tags)
            for tgt in ("f8", "i8", "c16", "?", "u4", "f4"):
                with numpy.errstate(all="ignore"):
                    want = vals.astype(tgt)
                twice(R, "polynomial(x,dtype)", f"polynomial({src} {lname}, dtype={tgt})", lambda: numpoly.polynomial(x, dtype=tgt),
                      lambda got: compare_cols(got, {(0, 0): want}, tgt, None), tags + [f"tgt={tgt}"])
            twice(R, "from_attributes", f"from_attributes with {src} {lname} coefficients",
                  lambda: numpoly.polynomial_from_attributes([(0, 0), (1, 1)], [x, x[::-1]], ("q0", "q1")),
                  lambda got: compare_cols(got, {(0, 0): vals, (1, 1): vals[::-1]}, src, None), tags)
            if src != "?":
                rt = numpy.result_type(numpy.dtype("i1"), numpy.dtype(src))
                one = numpy.ones((2, 3), dtype=rt)
                twice(R, "add", f"q0 + {src} {lname}", lambda: q0 + x, lambda got: compare_cols(got, {(0, 0): vals.astype(rt), (1, 0): one}, rt, None, ("q0", "q1")), tags)
                twice(R, "radd", f"{src} {lname} + q0", lambda: x + q0, lambda got: compare_cols(got, {(0, 0): vals.astype(rt), (1, 0): one}, rt, None, ("q0", "q1")), tags)
                twice(R, "multiply", f"{src} {lname} * q0", lambda: x * q0, lambda got: compare_cols(got, {(1, 0): vals.astype(rt)}, rt, None, ("q0", "q1")), tags)
                twice(R, "subtract", f"q0 - {src} {lname}", lambda: q0 - x, lambda got: compare_cols(got, {(0, 0): (-vals.astype(rt)) if rt.kind != "u" else (0 - vals.astype(rt)), (1, 0): one}, rt, None, ("q0", "q1")), tags)
    elif k == "mixedlists":
        # lists that mix an entry of a given dtype with plain Python numbers: dtype and values as numpy.array(list) gives
        src = case["d"]
        R.state(("mixedlists", src))
        typed = data(src, 3)[1]
        if src == "?":
            typed = numpy.bool_(True)
        for py in (3, -1, 300, 70000, 0.1, 1e5, 1.5, 1j, True, 2 ** 40):
            for order in ("typed first", "python first"):
                items = [typed, py] if order == "typed first" else [py, typed]
                try:
                    with numpy.errstate(all="ignore"):
                        ref = numpy.array(items)
                except Exception:  # noqa: BLE001
                    R.stat("numpy_rejects")
                    continue
                tags = [f"src={src}", f"python={type(py).__name__}", order]
                twice(R, "polynomial(list)", f"polynomial({items!r})", lambda: numpoly.polynomial(items),
                      lambda got: compare_cols(got, {(0, 0): ref}, ref.dtype, None), tags)
                twice(R, "polynomial(tuple)", f"polynomial({tuple(items)!r})", lambda: numpoly.polynomial(tuple(items)),
                      lambda got: compare_cols(got, {(0, 0): ref}, ref.dtype, None), tags)
                # the typed entry as a 0-d array, and as a polynomial of that dtype
                arr0 = numpy.asarray(typed)
                items0 = [arr0, py] if order == "typed first" else [py, arr0]
                twice(R, "polynomial(list with 0-d array)", f"polynomial({items0!r})", lambda: numpoly.polynomial(items0),
                      lambda got: compare_cols(got, {(0, 0): ref}, ref.dtype, None), tags + ["0-d array entry"])
                if src != "?":
                    x = numpoly.variable(1, dtype=src)
                    itemsp = [x, py] if order == "typed first" else [py, x]
                    want_c = numpy.array([0, py] if order == "typed first" else [py, 0]).astype(ref.dtype)
                    want_x = numpy.array([1, 0] if order == "typed first" else [0, 1]).astype(ref.dtype)
                    twice(R, "polynomial(list with polynomial)", f"polynomial([q0 as {src}, {py!r}] {order})", lambda: numpoly.polynomial(itemsp),
                          lambda got: compare_cols(got, {(0, 0): want_c, (1, 0): want_x}, ref.dtype, None), tags + ["polynomial entry"])
    elif k == "mixedcoefs":
        # the coefficient arrays of ONE construction call in two different dtypes, values at the edge of what the other
        # dtype (or their common dtype) can hold: every coefficient is cast to the requested dtype on its own, as
        # numpy.asarray(c).astype(dtype) casts it - not by way of a common dtype of all coefficients
        R.state("mixedcoefs")
        edge = {"i8": [2 ** 53 + 1, -(2 ** 62) - 1], "u8": [2 ** 53 + 1, 2 ** 63 + 5], "f8": [0.5, -3.0], "i4": [2 ** 24 + 1, -7], "f4": [0.5, 3.0],
                "c16": [1 + 2j, 0.5j], "?": [True, False], "i2": [-300, 7], "u1": [200, 1]}
        for d1, d2 in itertools.permutations(list(edge), 2):
            c1, c2 = numpy.array(edge[d1], dtype=d1), numpy.array(edge[d2], dtype=d2)
            rt = numpy.result_type(c1, c2)
            # (with no dtype requested, polynomial_from_attributes takes the dtype of the FIRST coefficient - the library's
            # documented choice, not numpy's promotion; nothing is demanded of that call form here)
            for tgt in ("i8", "u8", "f8", "c16", "i4"):
                if tgt is not None and numpy.dtype(tgt).kind != "c" and "c16" in (d1, d2):
                    continue        # discarding an imaginary part is numpy's ComplexWarning territory
                if tgt in ("i8", "u8", "i4") and ("f8" in (d1, d2) or "f4" in (d1, d2)) and False:
                    continue
                with numpy.errstate(all="ignore"):
                    w1, w2 = c1.astype(tgt or rt), c2.astype(tgt or rt)
                kw = {} if tgt is None else {"dtype": tgt}
                tags = [f"d1={d1}", f"d2={d2}", f"tgt={tgt}"]
                twice(R, "from_attributes", f"from_attributes coefficients {d1} and {d2}, dtype={tgt}",
                      lambda: numpoly.polynomial_from_attributes([(0, 0), (1, 1)], [c1, c2], ("q0", "q1"), **kw),
                      lambda got: compare_cols(got, {(0, 0): w1, (1, 1): w2}, tgt or rt, None), tags)
                twice(R, "polynomial(dict)", f"polynomial(dict) coefficients {d1} and {d2}, dtype={tgt}",
                      lambda: numpoly.polynomial({(0, 0): c1, (1, 1): c2}, names=("q0", "q1"), **kw),
                      lambda got: compare_cols(got, {(0, 0): w1, (1, 1): w2}, tgt or rt, None), tags)
    elif k == "empty":
        R.state("empty")
        for dt in ("i8", "f4", "?"):
            twice(R, "from_attributes", f"all-zero attributes {dt}", lambda: numpoly.polynomial_from_attributes([(1,), (2,)], [numpy.zeros(2, dt), numpy.zeros(2, dt)], ("q0",)),
                  lambda got: compare_cols(got, {}, dt, None) + ([] if got.shape == (2,) else [f"shape {got.shape}"]), ["no_surviving_term"])
            twice(R, "zeros", f"zeros((2,), dtype={dt})", lambda: numpoly.zeros((2,), dtype=dt), lambda got: compare_cols(got, {}, dt, None), ["no_surviving_term"])
            twice(R, "zeros_like", f"zeros_like {dt}", lambda: numpoly.zeros_like(numpoly.polynomial(numpy.ones(3, dt))), lambda got: compare_cols(got, {}, dt, None), ["no_surviving_term"])
            twice(R, "ones", f"ones((2,), dtype={dt})", lambda: numpoly.ones((2,), dtype=dt), lambda got: compare_cols(got, {(0, 0): numpy.ones(2, dt)}, dt, None), [])
            twice(R, "full", f"full dtype={dt}", lambda: numpoly.full((2,), numpoly.polynomial(numpy.ones((), dt)) * numpoly.symbols("q0"), dtype=dt),
                  lambda got: compare_cols(got, {(1, 0): numpy.ones(2, dt)}, dt, None), [])
    else:
        raise KeyError(k)


def post(agg, tier, seed, cov):
    cov["hook_activations"] = {"poison_fills": "per worker; see stats"}
    return []
