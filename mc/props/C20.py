"""C20  Monomials are never confused, whatever the exponent size (boundary-exhaustive E1)."""
import io
import itertools
import pickle

import numpy

from .. import tree  # noqa: F401
import numpoly

from ..alpha import alpha, alpha_raw, raw_view, KEY_OFFSET, build_checked, spec, model_of
from ..model import V, ONE, exact_array

ID = "C20"
CASE_BUDGET_S = 900
LIMIT = 55000
BLOCK = 50

GRID = [0, 1, 2, 33, 58, 59, 68, 69, 70, 74, 101, 127, 128, 196, 197, 198, 255, 256, 1023, 2047, 2048, 8173, 8174, 54999]
BIG = [55000, 55236, 55237, 55238, 57284, 57285, 57290, 60000, 65535, 65536, 99999, 1114051, 1114052, 1114053, 2 ** 31]

META = {
    "rule": "every exponent e < 55000 (quick: every e < 2048, every e within +-3 of a power of two or of a code-point boundary, "
            "and the VERIF_SEED residue class mod 8 of the rest; thorough: all) in blocks of 50 through: construction, "
            ".exponents, the raw structured view and back (polynomial / aspolynomial of the raw array), pickle, alignment "
            "(p + shifted copy: equal exponents merge, distinct ones stay distinct), multiplication by q0, derivative, "
            "evaluation at 1 (and at 2 for e<=60), str; all pairs (a,b) with a+b<=600 for (c*q0**a)*(d*q0**b) (one packed call "
            "per a); two- and three-indeterminate exponent tuples on a boundary grid through multiply, power, derivative, call, "
            "pickle; every two-term polynomial 2*x**t1+3*x**t2 over all pairs of tuples of the 14x14 two-name grid times a constant, "
            "times q0+q1, plus q0+q1, squared, differentiated; savetxt/loadtxt ('correct or error', StringIO and files written/read with latin1 / utf-8 / default encodings and binary streams) for every single exponent < 300 in three positions and every exponent pair (a,b) < 110; exponents beyond 55000 up to 2**31: correct or error; exponents around 2**31, 2**32-59 .. 2**32+59, 2**33, 2**63, 2**64 and negative ones over 1-3 names through every constructor form (list, int64/uint64/object array, dict, ndpoly) and products / powers that cross the 32-bit limit: the exact monomial or an error. "
            "distinct = exponent value or tuple x operation.",
    "bounds": lambda tier: {"single_exponents": LIMIT, "coverage_of_single_exponents": "all" if tier == "thorough" else "core + 1/8 slice",
                            "pair_sum": 600, "grid": GRID, "beyond": BIG},
    "assumptions": ["for exponents the library cannot represent or cannot write to / read from text an exception is accepted; a "
                    "different monomial is not"],
}


def core_exponents():
    s = set(range(0, 2048))
    for k in range(1, 17):
        for d in range(-3, 4):
            s.add(2 ** k + d)
            s.add(2 ** k - KEY_OFFSET + d)
    for b in (0x80, 0x100, 0x800, 0xD800, 0xE000, 0xFFFF):
        for d in range(-3, 4):
            s.add(b - KEY_OFFSET + d)
    return sorted(e for e in s if 0 <= e < LIMIT)


def cases(tier, seed):
    core = core_exponents()
    if tier == "thorough":
        es = list(range(LIMIT))
    else:
        cs = set(core)
        es = sorted(cs | {e for e in range(LIMIT) if e % 8 == seed % 8})
    out = []
    for i in range(0, len(es), BLOCK):
        out.append({"k": "single", "es": es[i:i + BLOCK]})
    for a in range(0, 601):
        if a % 4 == 0:
            out.append({"k": "pairs", "a0": a, "a1": min(601, a + 4)})
    for i0 in range(0, 14 ** 2, 49):
        out.append({"k": "grid2", "i0": i0})
    for i0 in range(0, 7 ** 3, 49):
        out.append({"k": "grid3", "i0": i0})
    for i0 in range(0, 14 ** 2, 10):
        out.append({"k": "sums2", "i0": i0, "i1": min(14 ** 2, i0 + 10)})
    out.append({"k": "text"})
    for a0 in range(0, 110, 5):
        out.append({"k": "textpairs", "a0": a0, "a1": a0 + 5})
    for e in BIG:
        out.append({"k": "big", "e": e})
    for k_ in (1, 2, 3):
        out.append({"k": "huge", "names": k_})
    out.append({"k": "bigpowers"})
    out.sort(key=lambda c: {"grid3": 0, "grid2": 1, "text": 2, "pairs": 3}.get(c["k"], 4))   # longest first
    return out


def mono1(e):
    return frozenset({("q0", e)}) if e else ONE


def build_block(es, coef=None, names=("q0",)):
    """array whose i-th element is coef[i]*q0**es[i]  (ndpoly allocation + raw writes)"""
    n = len(es)
    uniq = sorted(set(es))
    p = numpoly.ndpoly(exponents=[[e] for e in uniq], shape=(n,), names=names, dtype="i8")
    raw = raw_view(p)
    for key in p.keys:
        raw[key] = 0
    coef = coef or [i + 1 for i in range(n)]
    for i, e in enumerate(es):
        raw[p.keys[uniq.index(e)]][i] = coef[i]
    return p, coef


def model_block(es, coef):
    t = {}
    n = len(es)
    for i, (e, c) in enumerate(zip(es, coef)):
        col = t.setdefault(mono1(e), exact_array(numpy.zeros(n, dtype=int)))
        col[i] = col[i] + c
    return V(t, (n,))


def expect(R, op, label, f, want, tags, sub=None, allow_error=False):
    R.tr()
    try:
        got = f()
    except Exception as err:  # noqa: BLE001
        if allow_error:
            R.stat("raised_instead")
            return None
        R.fail(op, "exception", f"{label}: {type(err).__name__}: {str(err)[:200]}", tags=tags, sub=sub)
        return None
    try:
        ok = want(got)
    except Exception as err:  # noqa: BLE001
        ok = f"result unreadable: {type(err).__name__}: {err}"
    if ok is not True:
        R.fail(op, "wrong-value", f"{label}: {ok}"[:500], tags=tags, sub=sub)
        return None
    R.outcome((op, label))
    return got


def eq_model(m):
    def want(got):
        if not isinstance(got, numpoly.ndpoly):
            return f"result type {type(got).__name__}"
        a = alpha(got)
        ar = alpha_raw(got)
        if a != m:
            return f"a different polynomial: got {short(a)} expected {short(m)}"
        if ar != m:
            return f"raw view decodes to a different polynomial: {short(ar)} expected {short(m)}"
        return True
    return want


def short(v):
    els = v.elements().ravel().tolist()
    return str([dict(e) for e in els[:3]])[:300]


def run_single(case, R, es=None):
    es = es or case["es"]
    tags = ["single"]
    sub = None
    p, coef = build_block(es)
    m = model_block(es, coef)
    lab = f"exponents {es[0]}..{es[-1]}"
    for e in es:
        R.state(("e", e))
    # construct -> exponents / raw view
    expect(R, "construct", lab, lambda: p, eq_model(m), tags, sub)
    expect(R, "exponents", lab, lambda: sorted(int(x) for x in p.exponents[:, 0]), lambda got: got == sorted(set(es)) or f"{got[:5]}", tags, sub)
    from .C03 import attr_recall
    expect(R, "accessors after the caller wrote to their results", lab, lambda: attr_recall(p, m), lambda got: (not got) or got[0], tags, sub)
    # raw structured view and back
    for fname, f in (("polynomial(raw)", lambda: numpoly.polynomial(numpy.array(raw_view(p)), names=p.names)),
                     ("aspolynomial(values)", lambda: numpoly.aspolynomial(p.values, names=p.names)),
                     ("polynomial(poly)", lambda: numpoly.polynomial(p)),
                     ("from_attributes", lambda: numpoly.polynomial_from_attributes(p.exponents, p.coefficients, p.names)),
                     ("todict", lambda: numpoly.polynomial(p.todict(), names=p.names)),
                     ("pickle", lambda: pickle.loads(pickle.dumps(p))),
                     ("getitem", lambda: p[::1]), ("copy", lambda: p.copy())):
        expect(R, fname, lab, f, eq_model(m), tags, sub)
    # the functions that rebuild a polynomial from the raw structured array (reshape, transpose, repeat, ...)
    n = len(es)
    for fname, f, h in (("reshape", lambda: numpoly.reshape(p, (n, 1)), lambda c: c.reshape(n, 1)),
                        ("transpose", lambda: numpoly.transpose(numpoly.reshape(p, (1, n))), lambda c: c.reshape(n, 1)),
                        ("repeat", lambda: numpoly.repeat(p, 2, axis=0), lambda c: numpy.repeat(c, 2)),
                        ("tile", lambda: numpoly.tile(p, 2), lambda c: numpy.tile(c, 2)),
                        ("expand_dims", lambda: numpoly.expand_dims(p, 0), lambda c: c[None]),
                        ("atleast_2d", lambda: numpoly.atleast_2d(p), lambda c: c[None]),
                        ("array_split", lambda: numpoly.array_split(p, 2)[1], lambda c: numpy.array_split(c, 2)[1]),
                        ("diag", lambda: numpoly.diag(p), lambda c: numpy.diag(c)),
                        ("broadcast_arrays", lambda: numpoly.broadcast_arrays(p, numpoly.reshape(p, (n, 1)))[0], lambda c: numpy.broadcast_to(c, (n, n))),
                        ("concatenate", lambda: numpoly.concatenate([p, p]), lambda c: numpy.concatenate([c, c])),
                        ("where", lambda: numpoly.where(numpy.arange(n) % 2 == 0, p, 0), lambda c: numpy.where(numpy.arange(n) % 2 == 0, c, 0)),
                        ("polynomial(list)", lambda: numpoly.polynomial(list(p[:3])), lambda c: c[:3])):
        expect(R, fname, lab, f, eq_model(m.map(h)), tags, sub)
    # alignment: equal exponents merge, distinct stay distinct
    shifted = [e + 1 for e in es]
    p2, coef2 = build_block(shifted, [10 * c for c in coef])
    m2 = model_block(shifted, coef2)
    expect(R, "add shifted", lab, lambda: p + p2, eq_model(m + m2), tags, sub)
    expect(R, "add self", lab, lambda: p + p, eq_model(m + m), tags, sub)
    expect(R, "subtract rolled", lab, lambda: p - p[::-1], eq_model(m - m.map(lambda c: c[::-1])), tags, sub)
    al = expect(R, "align_exponents", lab, lambda: numpoly.align_exponents(p, p2),
                lambda got: (alpha(got[0]) == m and alpha(got[1]) == m2 and got[0].exponents.tolist() == got[1].exponents.tolist()) or "aligned operands differ from inputs", tags, sub)
    # multiplication by q0 and by q0**3; power 2 for small ones
    q0 = numpoly.symbols("q0")
    x = V.var("q0")
    expect(R, "multiply q0", lab, lambda: p * q0, eq_model(m * x), tags, sub)
    expect(R, "multiply 2*q0**3", lab, lambda: (2 * q0 ** 3) * p, eq_model(m * x * x * x * 2), tags, sub)
    # derivative
    expect(R, "derivative", lab, lambda: numpoly.derivative(p, "q0"), eq_model(m.diff("q0")), tags, sub)
    # evaluation at 1 (every element -> its coefficient), at 2 for tiny exponents
    expect(R, "call(1)", lab, lambda: p(1), lambda got: (not isinstance(got, numpoly.ndpoly) and numpy.asarray(got).tolist() == coef) or f"{numpy.asarray(got).tolist()[:5]} != {coef[:5]}", tags, sub)
    if max(es) <= 60:
        expect(R, "call(2)", lab, lambda: p(2), lambda got: numpy.asarray(got).tolist() == [c * 2 ** e for c, e in zip(coef, es)] or "wrong values", tags, sub)
    # str of a few elements
    for i in (0, len(es) // 2, len(es) - 1):
        e, c = es[i], coef[i]
        want = (f"{c}*q0**{e}" if e > 1 else f"{c}*q0" if e == 1 else f"{c}") if c != 1 else (f"q0**{e}" if e > 1 else "q0" if e == 1 else "1")
        expect(R, "str", f"exponent {e}", lambda: str(p[i]), lambda got: got == want or f"{got!r} != {want!r}", tags, sub)
    R.sample({"exponents": es[:5] + ["..."] + es[-2:]})


def run_pairs(case, R):
    x = V.var("q0")
    for a in range(case["a0"], case["a1"]):
        bs = list(range(0, 601 - a))
        c, = [3]
        pa_, _ = build_block([a], [c])
        pb, coef = build_block(bs, [(i % 7) + 1 for i in range(len(bs))])
        mb = model_block(bs, coef)
        want_es = [a + b for b in bs]
        mprod = model_block(want_es, [c * d for d in coef])
        R.state(("pairs", a))
        R.stat("pairs", len(bs))
        tags = ["pairs", "sum>=69" if a + max(bs) >= 69 else "sum<69"]
        expect(R, "multiply", f"(3*q0**{a}) * (d*q0**b), b=0..{600 - a}", lambda: pa_[0] * pb, eq_model(mprod), tags,
               {"k": "pairs", "a0": a, "a1": a + 1})
        if a % 25 == 0:
            expect(R, "multiply (reversed operands)", f"(d*q0**b) * (3*q0**{a})", lambda: pb * pa_[0], eq_model(mprod), tags)
    R.sample({"pairs_a": [case["a0"], case["a1"]], "b": "0..600-a"})


def tuples_model(names, tuples, coef):
    t = {}
    n = len(tuples)
    for i, (e, c) in enumerate(zip(tuples, coef)):
        mm = frozenset((nm, x) for nm, x in zip(names, e) if x)
        col = t.setdefault(mm, exact_array(numpy.zeros(n, dtype=int)))
        col[i] = col[i] + c
    return V(t, (n,))


def build_tuples(names, tuples, coef):
    uniq = sorted(set(tuples))
    n = len(tuples)
    p = numpoly.ndpoly(exponents=[list(e) for e in uniq], shape=(n,), names=names, dtype="i8")
    raw = raw_view(p)
    for key in p.keys:
        raw[key] = 0
    for i, e in enumerate(tuples):
        raw[p.keys[uniq.index(e)]][i] = coef[i]
    return p


def run_grid(case, R, k):
    names = ("q0", "q1", "q2")[:k]
    grid = [0, 1, 33, 58, 59, 68, 69, 127, 128, 197, 255, 256, 2047, 2048] if k == 2 else [0, 1, 33, 69, 128, 256, 2048]
    tuples = list(itertools.product(grid, repeat=k))
    tags = [f"grid{k}"]
    for i0 in [case["i0"]]:
        tp = tuples[i0:i0 + 49]
        coef = [(i % 5) + 1 for i in range(len(tp))]
        p = build_tuples(names, tp, coef)
        m = tuples_model(names, tp, coef)
        lab = f"{k}-tuples {tp[0]}..{tp[-1]}"
        for t in tp:
            R.state(("t", t))
        expect(R, "construct", lab, lambda: p, eq_model(m), tags)
        expect(R, "polynomial(raw)", lab, lambda: numpoly.polynomial(numpy.array(raw_view(p)), names=p.names), eq_model(m), tags)
        expect(R, "pickle", lab, lambda: pickle.loads(pickle.dumps(p)), eq_model(m), tags)
        # multiply every element with every monomial of a second block: (i, j) grid via broadcasting
        other_t = [tuple(reversed(t)) for t in tp[::7]]
        po = build_tuples(names, other_t, [2] * len(other_t))
        mo = tuples_model(names, other_t, [2] * len(other_t))
        expect(R, "multiply", lab, lambda: p[:, None] * po[None, :],
               eq_model(m.map(lambda c: c[:, None]) * mo.map(lambda c: c[None, :])), tags)
        for nm in names:
            expect(R, "derivative", lab + " d/d" + nm, lambda: numpoly.derivative(p, nm), eq_model(m.diff(nm)), tags)
        # operands over another name tuple: the exponent columns have to be re-ordered (re-aligned) first
        other_names = ("q1", "q3") if k == 2 else ("q1", "q3", "q4")
        ot = [tuple(reversed(t)) for t in tp[::9]]
        pr = build_tuples(other_names, ot, [3] * len(ot))
        mr = tuples_model(other_names, ot, [3] * len(ot))
        expect(R, "add other names", lab, lambda: p[:len(ot)] + pr, eq_model(m.map(lambda c: c[:len(ot)]) + mr), tags)
        expect(R, "multiply other names", lab, lambda: p[:len(ot)] * pr, eq_model(m.map(lambda c: c[:len(ot)]) * mr), tags)
        expect(R, "align_polynomials other names", lab, lambda: numpoly.align_polynomials(p[:len(ot)], pr)[0], eq_model(m.map(lambda c: c[:len(ot)])), tags)
        expect(R, "call(ones)", lab, lambda: p(*([1] * k)), lambda got: numpy.asarray(got).tolist() == coef or "wrong values", tags)
        expect(R, "call(partial)", lab, lambda: p(**{names[-1]: 1}), eq_model(m.subs({names[-1]: 1}).map(lambda c: c.reshape(len(tp)))), tags)
        small = [t for t in tp if max(t) <= 300]
        if small:
            ps = build_tuples(names, small, [1] * len(small))
            ms = tuples_model(names, small, [1] * len(small))
            expect(R, "power 2", lab, lambda: ps ** 2, eq_model(ms * ms), tags)
    R.sample({"grid": grid, "indeterminates": k})


def run_sums(case, R):
    """two-term polynomials 2*x**t1 + 3*x**t2 for every pair of exponent tuples of the 2-name grid (large exponents in either
    column, in either term), times a constant, themselves, a small two-term factor and a derivative"""
    names = ("q0", "q1")
    grid = [0, 1, 33, 58, 59, 68, 69, 127, 128, 197, 255, 256, 2047, 2048]
    tuples = list(itertools.product(grid, repeat=2))
    small = build_checked(spec(names, (), [((1, 0), 1), ((0, 1), 1)]))
    msmall = V.var("q0") + V.var("q1")
    tags = ["sums2"]
    for i in range(case["i0"], case["i1"]):
        t1 = tuples[i]
        R.state(("s", t1))
        for t2 in tuples[i + 1:]:
            sp = spec(names, (), [(t1, 2), (t2, 3)])
            p, m = build_checked(sp), model_of(sp)
            lab = f"2*x^{t1}+3*x^{t2}"
            sub = {"k": "sums2", "i0": i, "i1": i + 1}
            expect(R, "multiply by constant", lab, lambda: p * 2, eq_model(m * V.const(2)), tags, sub)
            expect(R, "multiply by q0+q1", lab, lambda: p * small, eq_model(m * msmall), tags, sub)
            expect(R, "add q0+q1", lab, lambda: p + small, eq_model(m + msmall), tags, sub)
            if (t1[0] + t2[1]) % 3 == 0:
                expect(R, "square", lab, lambda: p * p, eq_model(m * m), tags, sub)
                expect(R, "derivative q1", lab, lambda: numpoly.derivative(p, "q1"), eq_model(m.diff("q1")), tags, sub)
    R.sample({"sums2": [case["i0"], case["i1"]], "grid": grid})


def run_text(case, R):
    """savetxt/loadtxt: correct or error, never a different monomial"""
    # the same exponents over indeterminates that are not the leading default names
    for names_ in (("q0", "q2"), ("q1", "q3"), ("q2", "q10")):
        for e in (0, 1, 2, 33, 58, 59, 60, 68, 69, 100):
            for tp in ([(e, 0), (0, 1)], [(e, e), (1, 0)], [(0, e), (e, 1)]):
                p_ = build_tuples(names_, tp, [2, 3])
                m_ = tuples_model(names_, tp, [2, 3])
                text_roundtrip(R, p_, m_, f"exponents {tp} over {names_}", ["text", "other_names"])
    names = ("q0", "q1")
    singles = sorted(set(range(0, 300)) | {1023, 2047, 2048, 8173, 8174, 54999})
    for e in singles:
        for tp in ([(e, 0), (0, 1)], [(e, e), (1, 0)], [(0, e), (e, 1)]):
            p = build_tuples(names, tp, [2, 3])
            m = tuples_model(names, tp, [2, 3])
            text_roundtrip(R, p, m, f"exponents {tp}", ["text"],
                           encodings=(None, ("latin1", "latin1"), ("utf-8", "utf-8"), ("latin1", "rb"), ("utf-8", None), (None, "latin1")) if tp[0][1] == 0 else (None,))
        R.state(("text", e))


def run_textpairs(case, R):
    """every exponent pair (a, b) with a in the block and b < 110: all two-character keys around the ASCII range"""
    names = ("q0", "q1")
    for a in range(case["a0"], case["a1"]):
        for b in range(0, 110):
            tp = [(a, b), (1, 1)]
            p = build_tuples(names, tp, [2, 3])
            m = tuples_model(names, tp, [2, 3])
            text_roundtrip(R, p, m, f"exponents {tp}", ["text", "pairgrid"], spellings=("numpoly",))
        R.state(("textpair", a))


def text_roundtrip(R, p, m, lab, tags, spellings=("numpoly", "numpy"), encodings=(None,)):
    import os
    import tempfile
    for spelling, enc in [(s_, e_) for s_ in spellings for e_ in encodings]:
        R.tr()
        try:
            save = numpoly.savetxt if spelling == "numpoly" else numpy.savetxt
            if enc is None:
                f = io.StringIO()
                save(f, p)
                f.seek(0)
                q = numpoly.loadtxt(f)
            else:
                fd, path = tempfile.mkstemp(prefix="numpoly-verif-c20-", dir=os.environ.get("TMPDIR", "/var/tmp"))
                os.close(fd)
                try:
                    save(path, p, encoding=enc[0])
                    if enc[1] == "rb":
                        with open(path, "rb") as src:
                            q = numpoly.loadtxt(src)
                    else:
                        q = numpoly.loadtxt(path, encoding=enc[1])
                finally:
                    os.unlink(path)
        except Exception:  # noqa: BLE001
            R.stat("text_raised")
            continue
        if not isinstance(q, numpoly.ndpoly):
            R.fail("savetxt/loadtxt", "wrong-value", f"{lab}: loaded a {type(q).__name__}", tags=tags)
            continue
        try:
            ok = alpha(q).close(m, 1e-12, 1e-12) and tuple(q.shape) == m.shape
            got = short(alpha(q))
        except Exception as err:  # noqa: BLE001
            ok, got = False, f"unreadable: {err}"
        if not ok:
            R.fail("savetxt/loadtxt", "wrong-value", f"{lab} [{spelling}]: a different polynomial was loaded: {got} expected {short(m)}", tags=tags)


def run_big(case, R):
    e = case["e"]
    tags = ["beyond_55000"]
    R.state(("big", e))
    try:
        p, coef = build_block([e, 1], [2, 3])
    except Exception:  # noqa: BLE001
        R.tr()
        R.stat("construction_raised")
        return
    m = model_block([e, 1], coef)
    x = V.var("q0")
    q0 = numpoly.symbols("q0")
    for op, f, want in (
        ("construct", lambda: p, m), ("polynomial(raw)", lambda: numpoly.polynomial(numpy.array(raw_view(p)), names=p.names), m),
        ("pickle", lambda: pickle.loads(pickle.dumps(p)), m), ("add", lambda: p + p[::-1], m + m.map(lambda c: c[::-1])),
        ("multiply", lambda: p * q0, m * x), ("derivative", lambda: numpoly.derivative(p, "q0"), m.diff("q0")),
    ):
        # one indeterminate: representable up to 0x10FFFF - 59; below that limit the operation has to succeed
        fits = (e + (1 if op == "multiply" else 0)) <= 0x10FFFF - KEY_OFFSET
        expect(R, op, f"exponent {e}", f, eq_model(want), tags + (["representable"] if fits else []), allow_error=not fits)
    expect(R, "call(1)", f"exponent {e}", lambda: p(1), lambda got: numpy.asarray(got).tolist() == coef or "wrong", tags, allow_error=e > 0x10FFFF - KEY_OFFSET)
    text_roundtrip(R, p, m, f"exponent {e}", tags)


HUGE = [2 ** 31 - 1, 2 ** 31, 2 ** 32 - 61, 2 ** 32 - 60, 2 ** 32 - 59, 2 ** 32 - 1, 2 ** 32, 2 ** 32 + 1, 2 ** 32 + 59, 2 ** 33 + 5,
        2 ** 63 - 1, 2 ** 64 + 3, -1, -5]


def run_huge(case, R):
    """exponents around the limits of the uint32 storage (and negative ones) through every public way of handing exponents
    over, and arithmetic that crosses the limit: the exact monomial or an error, never another monomial"""
    k = case["names"]
    names = ("q0", "q1", "q2")[:k]
    tags = ["huge", f"names={k}"]
    for e in HUGE:
        row = ((e, 1, 0)[:k])
        R.state(("huge", k, e))
        mono = frozenset((n, x) for n, x in zip(names, row) if x)
        m = V({mono: exact_array(numpy.array(3))}, ())
        ok_model = eq_model(m) if e >= 0 else (lambda got: f"a polynomial was built from the negative exponent {e}: {got!r}"[:200])
        forms = [("from_attributes(list)", lambda: numpoly.polynomial_from_attributes([list(row)], [3], names)),
                 ("from_attributes(object array)", lambda: numpoly.polynomial_from_attributes(numpy.array([list(row)], dtype=object), [3], names)),
                 ("polynomial(dict)", lambda: numpoly.polynomial({tuple(row): 3}, names=names)),
                 ("ndpoly(list)", lambda: filled_ndpoly([list(row)], names))]
        if -2 ** 63 <= e < 2 ** 63:
            forms += [("from_attributes(int64 array)", lambda: numpoly.polynomial_from_attributes(numpy.array([list(row)], dtype="i8"), [3], names)),
                      ("ndpoly(int64 array)", lambda: filled_ndpoly(numpy.array([list(row)], dtype="i8"), names))]
        if 0 <= e < 2 ** 64:
            forms += [("from_attributes(uint64 array)", lambda: numpoly.polynomial_from_attributes(numpy.array([list(row)], dtype="u8"), [3], names))]
        built = None
        for lab, f in forms:
            got = expect(R, lab, f"exponent {e} over {names}", f, ok_model, tags, allow_error=True)
            if got is not None and built is None:
                built = got
        if built is None:
            continue
        # arithmetic across the limit
        x0 = numpoly.symbols("q0")
        X0 = V.var("q0")
        for lab, f, want in (("multiply by q0", lambda: built * x0, m * X0), ("square", lambda: built * built, m * m), ("power 2", lambda: built ** 2, m * m),
                             ("multiply by q0**61", lambda: built * x0 ** 61, m * X0 ** 61), ("add", lambda: built + x0, m + X0),
                             ("derivative", lambda: numpoly.derivative(built, "q0"), m.diff("q0")), ("pickle", lambda: pickle.loads(pickle.dumps(built)), m)):
            expect(R, lab, f"exponent {e} over {names}", f, eq_model(want), tags, allow_error=True)


def run_bigpowers(case, R):
    """(c*q0**a)**n for every pair of a menu of bases and exponents whose product lies below, at and far beyond the
    representable range (also beyond 2**32): the exact power or an error"""
    A = [46341, 65536, 100000, 1114052, 40000, 70000, 300000, 557026]
    N = [2, 3, 17, 24, 42950, 65536, 92682, 9, 10, 20]
    for a in A:
        p, _ = build_block([a], [2])
        R.state(("bigpowers", a))
        for n in N:
            want = V({mono1(a * n): exact_array(numpy.array([2 ** n if n < 60 else 0]))}, (1,))
            if n >= 60:
                # the coefficient would overflow int64 as well: only "error or the right monomial" is asked
                ok = lambda got, a=a, n=n: (list(alpha(got).t) in ([mono1(a * n)], []) and list(alpha_raw(got).t) in ([mono1(a * n)], [])) or \
                    f"(2*q0**{a})**{n} stored the monomials {list(alpha(got).t)[:3]}"
            else:
                ok = eq_model(want)
            # with one indeterminate the key character caps the exponent at 0x10FFFF - 59: below that the power has to be computed
            representable = a * n <= 0x10FFFF - KEY_OFFSET
            for lab, f in (("**", lambda: p ** n), ("numpoly.power", lambda: numpoly.power(p, n)), ("numpy.power", lambda: numpy.power(p, n))):
                expect(R, lab, f"(2*q0**{a})**{n}", f, ok, ["bigpowers", "representable" if representable else "beyond"], allow_error=not representable)
        # with a second indeterminate the keys hold exponents up to 2**32-60
        for a2, n2 in ((2 ** 30, 3), (2 ** 30, 4), (2 ** 31, 2), (2 ** 16, 3)):
            sp = spec(("q0", "q1"), (), [((a2, 1), 2)])
            q, mq = build_checked(sp), model_of(sp)
            want = V({frozenset({("q0", a2 * n2), ("q1", n2)}): exact_array(numpy.array(2 ** n2))}, ())
            expect(R, "**", f"(2*q0**{a2}*q1)**{n2}", lambda: q ** n2, eq_model(want), ["bigpowers", "two names"], allow_error=True)


def filled_ndpoly(exponents, names):
    p = numpoly.ndpoly(exponents=exponents, shape=(), names=names, dtype="i8")
    raw = raw_view(p)
    for key in p.keys:
        raw[key] = 3
    return p


def run_case(case, R):
    k = case["k"]
    if k == "huge":
        return run_huge(case, R)
    if k == "bigpowers":
        return run_bigpowers(case, R)
    if k == "single":
        run_single(case, R)
    elif k == "pairs":
        run_pairs(case, R)
    elif k == "grid2":
        run_grid(case, R, 2)
    elif k == "grid3":
        run_grid(case, R, 3)
    elif k == "sums2":
        run_sums(case, R)
    elif k == "text":
        run_text(case, R)
    elif k == "textpairs":
        run_textpairs(case, R)
    elif k == "big":
        run_big(case, R)
    else:
        raise KeyError(k)


def post(agg, tier, seed, cov):
    cov["pairs_multiplied"] = agg["stats"].get("pairs", 0)
    return []
