"""C03  Returned polynomials are well-formed and regenerate from their attributes.

(a) the invariant wellformed(p) + the three regenerations on EVERY ndpoly produced by the C01 input
    families and program search (C01's cases re-run with an extra oracle);
(b) complete enumeration of attribute triples (exponent matrices N<=3 x D<=2 over {0,1,2} incl.
    duplicates / unsorted / all-zero columns; coefficient lists over {0,1,-2}; names variants) through
    polynomial_from_attributes / ndpoly.from_attributes / clean_attributes under every way of giving
    the two retain flags (explicit, via global option, explicit contradicting the global option);
(c) every public constructor on every input kind.
"""
import itertools
import re

import numpy

from .. import tree  # noqa: F401
import numpoly

from ..alpha import alpha, alpha_raw, wellformed, build_checked, model_of, spec, raw_view
from ..model import V, exact_array, ONE
from .. import space, ops
from . import C01

ID = "C03"
CASE_BUDGET_S = 900

META = {
    "rule": "well-formedness + 3 regenerations (attributes, raw structured view + names, todict) on every result of the "
            "C01 families (scalar pairs, name sets, shapes x variants, kinds, unary, powers, program search); every "
            "attribute triple with N<=3 rows x D<=2 columns over {0,1,2}, coefficients over {0,1,-2} (0-d) and 4 vectors "
            "(shape (2,)), names {default, explicit, ndpoly, duplicate, wrong length}, x 12 ways of giving the retain flags; "
            "all public constructors x input kinds. distinct = distinct (triple, flag configuration) or result value.",
    "bounds": {"N": 3, "D": 2, "entries": [0, 1, 2], "flag_configs": 12},
    "assumptions": ["duplicate exponent rows: rejection demanded only when both duplicates would survive cleaning "
                    "(DESIGN.md section 4)"],
}


def regen_problems(p):
    """the three regenerations of the property; returns complaint strings"""
    out = []
    if not p.size:
        return out
    m = alpha(p)
    for name, f in (
        ("attributes", lambda: numpoly.polynomial_from_attributes(p.exponents, p.coefficients, p.names)),
        ("raw-view+names", lambda: numpoly.aspolynomial(numpy.ndarray.view(p, numpy.ndarray), names=p.names)),
        ("values+names", lambda: numpoly.polynomial(p.values, names=p.names)),
        ("todict", lambda: numpoly.polynomial(p.todict(), names=p.names)),
    ):
        try:
            q = f()
        except Exception as err:  # noqa: BLE001
            out.append(f"regeneration from {name} raised {type(err).__name__}: {err}")
            continue
        w = wellformed(q)
        if w:
            out.append(f"regeneration from {name} ill-formed: {w}")
            continue
        if tuple(q.shape) != tuple(p.shape) or q.dtype != p.dtype or tuple(q.names) != tuple(p.names):
            out.append(f"regeneration from {name}: shape/dtype/names {q.shape}/{q.dtype}/{q.names} != "
                       f"{p.shape}/{p.dtype}/{p.names}")
        elif alpha(q) != m:
            out.append(f"regeneration from {name}: value {alpha(q)!r} != {m!r}")
    return out


def attr_recall(p, m=None):
    """the arrays the accessors hand out are the caller's: after the caller overwrote what p.exponents, p.coefficients,
    p.todict() and p.indeterminants returned, p is still the polynomial it was and the accessors answer as before
    (p.values is p's own storage by design and is left alone)"""
    if not p.size:
        return []
    from ..snap import scribble
    m = alpha(p) if m is None else m
    try:
        e0 = numpy.asarray(p.exponents).tolist()
        c0 = [numpy.array(c).tolist() for c in p.coefficients]
        handed = [p.exponents, list(p.coefficients), list(p.todict().values()), p.indeterminants]
        if not scribble(handed):
            return []
        w = wellformed(p)
        if w:
            return [f"after the caller overwrote the arrays handed out by the accessors, p is ill-formed: {w}"]
        if numpy.asarray(p.exponents).tolist() != e0:
            return [f"p.exponents answers {numpy.asarray(p.exponents).tolist()} after the caller overwrote the array an earlier p.exponents returned (was {e0})"]
        if [numpy.array(c).tolist() for c in p.coefficients] != c0:
            return ["p.coefficients changed after the caller overwrote the arrays an earlier access returned"]
        if alpha(p) != m:
            return [f"p changed after the caller overwrote the arrays handed out by its accessors: {alpha(p)!r} != {m!r}"]
    except Exception as err:  # noqa: BLE001
        return [f"accessors after the caller overwrote their earlier results: {type(err).__name__}: {err}"]
    return []


def extra_check(p):
    return wellformed(p) + regen_problems(p) + attr_recall(p)


# ---- (b) attribute triples -------------------------------------------------------------------
FLAGCFG = []
for rc, rn in itertools.product([False, True], repeat=2):
    FLAGCFG.append({"eff": [rc, rn], "flags": [rc, rn], "glob": None})            # explicit, default globals
    FLAGCFG.append({"eff": [rc, rn], "flags": [None, None], "glob": [rc, rn]})    # through the global options
    FLAGCFG.append({"eff": [rc, rn], "flags": [rc, rn], "glob": [not rc, not rn]})  # explicit beats global


def exps_matrices(D, N):
    rows = list(itertools.product([0, 1, 2], repeat=D))
    return list(itertools.product(rows, repeat=N))


COEF0 = [0, 1, -2]
COEF1 = [(0, 0), (1, 0), (0, -2), (1, -2)]


def expected_triple(exps, coefs, names, rc, rn):
    """reference cleaning -> (kept rows (set), kept names (tuple), value V, must_reject, may_reject)"""
    D = len(exps[0])
    shape = numpy.shape(coefs[0])
    rows = list(zip(exps, coefs))
    if not rc:
        kept = [(e, c) for e, c in rows if numpy.any(c) or not any(e)]
        if not kept:
            kept = [((0,) * D, numpy.zeros(shape, dtype=int))]
    else:
        kept = rows
    dup_in = len(set(exps)) != len(exps)
    dup_kept = len({e for e, _ in kept}) != len(kept)
    used = [any(e[i] for e, _ in kept) for i in range(D)]
    if not rn:
        if not any(used):
            used[0] = True
        knames = tuple(n for n, u in zip(names, used) if u)
        krows = [tuple(x for x, u in zip(e, used) if u) for e, _ in kept]
    else:
        knames = tuple(names)
        krows = [e for e, _ in kept]
    t = {}
    for e, c in rows:
        m = frozenset((names[i], x) for i, x in enumerate(e) if x)
        c = exact_array(numpy.asarray(c))
        t[m] = t[m] + c if m in t else c
    return set(krows), knames, V(t, shape), dup_kept, dup_in


def triple_cases():
    out = [{"k": "rename"}]
    for D in (1, 2):
        for N in (1, 2, 3):
            mats = exps_matrices(D, N)
            step = 27 if len(mats) > 27 else len(mats)
            for i0 in range(0, len(mats), step):
                out.append({"k": "triples", "D": D, "N": N, "i0": i0, "i1": min(len(mats), i0 + step)})
            if D == 2:
                out.append({"k": "dupnames", "N": N})
            # names omitted (the default names are given), and the same under other naming options
            for pre, omit in (("q", True), ("z", False), ("z", True), ("var", True), ("x_", False)):
                out.append({"k": "triples", "D": D, "N": N, "i0": 0, "i1": min(len(mats), 9), "pre": pre, "omit": omit})
    return out


def run_triples(case, R):
    D, N = case["D"], case["N"]
    mats = exps_matrices(D, N)[case["i0"]:case["i1"]]
    pre, omit = case.get("pre", "q"), case.get("omit", False)
    names = tuple(f"{pre}{i}" for i in ((1, 3) if not omit else (0, 1)))[:D]
    naming = {} if pre == "q" else {"default_varname": pre, "varname_filter": re.escape(pre) + r"\d+"}
    coef_sets = [list(itertools.product(COEF0, repeat=N))]
    if N <= 2:
        coef_sets.append([tuple(numpy.array(c) for c in cs) for cs in itertools.product(COEF1, repeat=N)])
    for exps in mats:
        R.state(("triple", D, N, exps))
        for coefs_list in coef_sets:
            for coefs in coefs_list:
                for cfg in FLAGCFG:
                    rc, rn = cfg["eff"]
                    R.tr()
                    krows, knames, value, must_reject, may_reject = expected_triple(exps, coefs, names, rc, rn)
                    kw = {}
                    if cfg["flags"][0] is not None:
                        kw = {"retain_coefficients": cfg["flags"][0], "retain_names": cfg["flags"][1]}
                    gl = {}
                    if cfg["glob"] is not None:
                        gl = {"retain_coefficients": cfg["glob"][0], "retain_names": cfg["glob"][1]}
                    sub = {"k": "triple1", "exps": [list(e) for e in exps],
                           "coefs": [numpy.asarray(c).tolist() for c in coefs], "names": list(names), "cfg": cfg}
                    tags = [f"rc={rc}", f"rn={rn}", "flags=" + ("explicit" if kw else "global"),
                            "dup" if may_reject else "nodup", f"prefix={pre}", "names=omitted" if omit else "names=given"]
                    sub = dict(sub, pre=pre, omit=omit)
                    try:
                        with numpoly.global_options(**dict(gl, **naming)):
                            p = numpoly.polynomial_from_attributes(
                                [list(e) for e in exps], [numpy.asarray(c) for c in coefs], None if omit else names, **kw)
                    except Exception as err:  # noqa: BLE001
                        if may_reject:
                            R.stat("rejected_duplicates")
                            continue
                        R.fail("polynomial_from_attributes", "exception", f"{type(err).__name__}: {err} for {sub}",
                               tags=tags, sub=sub)
                        continue
                    if must_reject:
                        R.fail("polynomial_from_attributes", "accepted-duplicates",
                               f"duplicate exponent rows survive cleaning but were accepted: {sub}", tags=tags, sub=sub)
                        continue
                    probs = wellformed(p)
                    if not probs:
                        got_rows = {tuple(int(x) for x in r) for r in p.exponents}
                        if may_reject:
                            pass  # accepted a triple whose duplicates were cleaned away: value must still be right
                        else:
                            if got_rows != krows:
                                probs.append(f"kept exponent rows {sorted(got_rows)} != expected {sorted(krows)}")
                            if tuple(p.names) != knames:
                                probs.append(f"kept names {p.names} != expected {knames}")
                        if alpha(p) != value:
                            probs.append(f"value {alpha(p)!r} != denoted {value!r}")
                        if tuple(p.shape) != value.shape:
                            probs.append(f"shape {p.shape}")
                    if probs:
                        R.fail("polynomial_from_attributes", "wrong-value", "; ".join(probs) + f" for {sub}", tags=tags, sub=sub)
                    else:
                        R.outcome((frozenset(krows), knames, value.key()))
    R.sample({"exponents": [list(e) for e in mats[-1]], "names": list(names), "flag_configs": len(FLAGCFG)})


def run_dupnames(case, R):
    """duplicate indeterminate names are rejected whatever the terms and the retain flags are (also when the duplicated
    column is unused and would be dropped)"""
    N = case["N"]
    for exps in exps_matrices(2, N)[::1 if N < 3 else 13]:
        R.state(("dupnames", N, exps))
        for coefs in itertools.product(COEF0, repeat=N):
            for cfg in FLAGCFG:
                kw = {}
                if cfg["flags"][0] is not None:
                    kw = {"retain_coefficients": cfg["flags"][0], "retain_names": cfg["flags"][1]}
                gl = {}
                if cfg["glob"] is not None:
                    gl = {"retain_coefficients": cfg["glob"][0], "retain_names": cfg["glob"][1]}
                for names in (("q1", "q1"), ["q3", "q3"]):
                    for ctor, f in (("polynomial_from_attributes", lambda: numpoly.polynomial_from_attributes([list(e) for e in exps], list(coefs), names, **kw)),
                                    ("ndpoly.from_attributes", lambda: numpoly.ndpoly.from_attributes([list(e) for e in exps], list(coefs), names, **kw))):
                        R.tr()
                        tags = [f"rc={cfg['eff'][0]}", f"rn={cfg['eff'][1]}", "duplicate_names"]
                        try:
                            with numpoly.global_options(**gl):
                                p = f()
                        except Exception:  # noqa: BLE001
                            R.outcome(("dupnames", exps, coefs, ctor, str(cfg["eff"])))
                            continue
                        R.fail(ctor, "accepted-duplicates", f"duplicate names {names} accepted for exponents {exps} coefficients {coefs} {kw} {gl}: {p!r}"[:400], tags=tags)


def run_rename(case, R):
    """polynomial / aspolynomial of a polynomial with names=: the same exponents and coefficients under the new names, which
    replace the old ones position by position (one string for several indeterminates is a prefix that gets numbered)"""
    inputs = [spec(("q1",), (), [((2,), 1), ((0,), -3)]), spec(("q0", "q1"), (2,), [((2, 0), [1, 0]), ((0, 1), [3, -1]), ((0, 0), [0, 2])]),
              spec(("q0", "q2", "q10"), (), [((1, 0, 2), 2), ((0, 1, 0), -1)], "f8"), spec(("q3",), (3,), [((1,), [1, 2, 3])])]
    for sp in inputs:
        old = tuple(sp["n"])
        k_ = len(old)
        p, m = build_checked(sp), model_of(sp)
        R.state(("rename", old))
        forms = [("same tuple", old, old), ("other tuple", tuple(f"q{3 + 2 * i}" for i in range(k_)), None), ("list", [f"q{7 + i}" for i in range(k_)], None),
                 ("unsorted tuple", tuple(f"q{9 - i}" for i in range(k_)), None), ("indeterminants", numpoly.symbols(" ".join(f"q{20 + i}" for i in range(k_))) if k_ > 1 else numpoly.symbols("q20"), tuple(f"q{20 + i}" for i in range(k_))),
]
        if k_ > 1:
            forms.append(("prefix 'q'", "q", tuple(f"q{i}" for i in range(k_))))
        if k_ == 1:
            forms += [("one complete name 'q4'", "q4", ("q4",)), ("one complete name 'q12'", "q12", ("q12",))]
        else:
            forms += [("prefix 'q5' for several", "q5", tuple(f"q5{i}" for i in range(k_)))]
        for lab, arg, new in forms:
            new = tuple(new if new is not None else arg)
            ren = dict(zip(old, new))
            want = V({frozenset((ren[n_], e_) for n_, e_ in mono): c_ for mono, c_ in m.t.items()}, m.shape)
            for ctor, f in (("aspolynomial", lambda: numpoly.aspolynomial(p, names=arg)), ("polynomial", lambda: numpoly.polynomial(p, names=arg)),
                            ("polynomial(values)", lambda: numpoly.polynomial(numpy.array(raw_view(p)), names=arg)),
                            ("from_attributes", lambda: numpoly.polynomial_from_attributes(p.exponents, p.coefficients, arg))):
                R.tr()
                tags = ["rename", f"names={lab}"]
                try:
                    got = f()
                except Exception as err:  # noqa: BLE001
                    R.fail(ctor, "exception", f"{ctor}(p over {old}, names={arg!r}): {type(err).__name__}: {err}", tags=tags)
                    continue
                probs = wellformed(got) if isinstance(got, numpoly.ndpoly) else [f"type {type(got).__name__}"]
                if not probs and (tuple(got.shape) != m.shape or alpha(got) != want or not set(new) >= {n_ for mo in want.t for n_, _ in mo} or tuple(got.names) != new):
                    probs.append(f"got {got!r} with names {got.names}, expected names {new} and {want!r}")
                if probs:
                    R.fail(ctor, "wrong-value", f"{ctor}(p over {old}, names={arg!r}): " + "; ".join(map(str, probs))[:400], tags=tags)
                else:
                    R.outcome(("rename", old, lab, ctor))


def run_triple1(case, R):
    exps = tuple(tuple(e) for e in case["exps"])
    coefs = [numpy.asarray(c) for c in case["coefs"]]
    names = tuple(case["names"])
    cfg = case["cfg"]
    rc, rn = cfg["eff"]
    krows, knames, value, must_reject, may_reject = expected_triple(exps, coefs, names, rc, rn)
    kw = {}
    if cfg["flags"][0] is not None:
        kw = {"retain_coefficients": cfg["flags"][0], "retain_names": cfg["flags"][1]}
    gl = {}
    if cfg["glob"] is not None:
        gl = {"retain_coefficients": cfg["glob"][0], "retain_names": cfg["glob"][1]}
    pre, omit = case.get("pre", "q"), case.get("omit", False)
    naming = {} if pre == "q" else {"default_varname": pre, "varname_filter": re.escape(pre) + r"\d+"}
    R.tr()
    try:
        with numpoly.global_options(**dict(gl, **naming)):
            p = numpoly.polynomial_from_attributes([list(e) for e in exps], coefs, None if omit else names, **kw)
    except Exception as err:  # noqa: BLE001
        if not may_reject:
            R.fail("polynomial_from_attributes", "exception", f"{type(err).__name__}: {err}")
        return
    if must_reject:
        R.fail("polynomial_from_attributes", "accepted-duplicates", "duplicates accepted")
        return
    probs = wellformed(p)
    got_rows = {tuple(int(x) for x in r) for r in p.exponents}
    if not may_reject and (got_rows != krows or tuple(p.names) != knames):
        probs.append(f"rows {sorted(got_rows)} / names {p.names} != {sorted(krows)} / {knames}")
    if not probs and alpha(p) != value:
        probs.append("value differs")
    if probs:
        R.fail("polynomial_from_attributes", "wrong-value", "; ".join(probs))


# ---- other entry points to the same cleaning: from_attributes / clean_attributes / names variants ---
def run_entrypoints(case, R):
    names = ("q0", "q2")
    all_exps = [(0, 0), (1, 0), (0, 2), (1, 1)]
    # every non-empty subset of the four rows as the STORED term set (sources of one, two, three and four terms), every
    # assignment of zero / non-zero coefficients to them
    combos = []
    for r in range(4, 0, -1):
        for rows_ in itertools.combinations(all_exps, r):
            for coefs_ in itertools.product([0, 3], repeat=r):
                combos.append((list(rows_), coefs_))
    for base_exps, coefs in combos:
        for rc, rn in itertools.product([False, True], repeat=2):
            krows, knames, value, _, _ = expected_triple(tuple(base_exps), coefs, names, rc, rn)
            sp = spec(names, (), list(zip(base_exps, coefs)))
            src = build_checked(sp)
            for fname, f in (
                ("ndpoly.from_attributes", lambda: numpoly.ndpoly.from_attributes(
                    base_exps, list(coefs), names, retain_coefficients=rc, retain_names=rn)),
                ("clean_attributes", lambda: numpoly.clean_attributes(src, retain_coefficients=rc, retain_names=rn)),
                ("clean_attributes(global)", lambda: _with(rc, rn, lambda: numpoly.clean_attributes(src))),
                ("polynomial(ndpoly)(global)", lambda: _with(rc, rn, lambda: numpoly.polynomial(src))),
            ):
                R.tr()
                try:
                    p = f()
                except Exception as err:  # noqa: BLE001
                    R.fail(fname, "exception", f"{type(err).__name__}: {err} coefs={coefs} rc={rc} rn={rn}",
                           tags=[f"rc={rc}", f"rn={rn}"])
                    continue
                probs = wellformed(p)
                got_rows = {tuple(int(x) for x in r) for r in p.exponents}
                if got_rows != krows:
                    probs.append(f"rows {sorted(got_rows)} != {sorted(krows)}")
                if tuple(p.names) != knames:
                    probs.append(f"names {p.names} != {knames}")
                if not probs and alpha(p) != value:
                    probs.append("value differs")
                if probs:
                    R.fail(fname, "wrong-value", "; ".join(probs) + f" coefs={coefs} rc={rc} rn={rn}",
                           tags=[f"rc={rc}", f"rn={rn}"])
                R.state((fname, coefs, rc, rn))
    # names variants
    for nm, expect in (
        (None, ("q0", "q1")), (("q3", "q5"), ("q3", "q5")), (numpoly.symbols("q3 q5"), ("q3", "q5")),
        (["q3", "q5"], ("q3", "q5")), (("q3", "q3"), "reject"), (("q3",), "reject"), (("q1", "q2", "q3"), "reject"),
    ):
        R.tr()
        try:
            p = numpoly.polynomial_from_attributes([(0, 1), (2, 0)], [1, 2], nm)
        except Exception as err:  # noqa: BLE001
            if expect != "reject":
                R.fail("polynomial_from_attributes", "exception", f"names={nm}: {type(err).__name__}: {err}", tags=["names"])
            continue
        if expect == "reject":
            R.fail("polynomial_from_attributes", "accepted-bad-names", f"names={nm} accepted: {p.names}", tags=["names"])
        elif tuple(p.names) != expect or wellformed(p):
            R.fail("polynomial_from_attributes", "wrong-value", f"names={nm}: got {p.names} {wellformed(p)}", tags=["names"])


def _with(rc, rn, f):
    with numpoly.global_options(retain_coefficients=rc, retain_names=rn):
        return f()


# ---- (c) constructors ---------------------------------------------------------------------------
def constructor_inputs():
    q0, q1 = V.var("q0"), V.var("q1")
    items = []

    def add(label, make, expected):
        items.append((label, make, expected))
    for x in (0, 3, -2, True, 1.5, 2 - 1j, numpy.int64(4), numpy.float64(-0.5), numpy.complex128(1j), numpy.bool_(True),
              numpy.uint32(7)):
        add(f"scalar {type(x).__name__} {x}", (lambda x=x: x), V.const(x))
    for dt in ("i8", "f8", "c16", "?", "u4", ">f8", ">i8", "f4", "i2"):
        for shape in [(), (1,), (3,), (2, 2), (1, 2, 1)]:
            a = (numpy.arange(int(numpy.prod(shape)) or 1).reshape(shape) % 3).astype(dt)
            add(f"ndarray {dt} {shape}", (lambda a=a: a.copy()), V.const(a))
    add("list of ints", lambda: [1, 2, 3], V.const([1, 2, 3]))
    add("nested list", lambda: [[1, 2], [3, 4]], V.const([[1, 2], [3, 4]]))
    add("empty-ish list [[1]]", lambda: [[1]], V.const([[1]]))
    add("tuple", lambda: (1.5, 2.5), V.const([1.5, 2.5]))

    def polys():
        a, b = numpoly.variable(2)
        return a, b
    add("list with polys", lambda: [1, polys()[0], polys()[1] ** 2 - polys()[0]],
        V.from_elements(numpy.array([frozenset({ONE: 1}.items()), frozenset((q0).element(()).items()),
                                     frozenset((q1 * q1 - q0).element(()).items())], dtype=object)))
    add("nested list with polys", lambda: [[polys()[0], 2], [3.5, polys()[0] * polys()[1]]],
        V.from_elements(numpy.array([[frozenset(q0.element(()).items()), frozenset({ONE: 2}.items())],
                                     [frozenset(V.const(3.5).element(()).items()), frozenset((q0 * q1).element(()).items())]],
                                    dtype=object)))
    add("dict", lambda: {(0, 1): 2, (2, 0): -1, (0, 0): 4}, V.const(2) * q1 + V.const(-1) * q0 * q0 + 4)
    add("dict arrays", lambda: {(1,): [1, 2], (0,): [0, 5]}, V({frozenset({("q0", 1)}): exact_array([1, 2]), ONE: exact_array([0, 5])}, (2,)))
    return items


def run_constructors(case, R):
    for label, make, expected in constructor_inputs():
        for fname, f in (("polynomial", numpoly.polynomial), ("aspolynomial", numpoly.aspolynomial)):
            R.tr()
            try:
                p = f(make())
            except Exception as err:  # noqa: BLE001
                R.fail(fname, "exception", f"{label}: {type(err).__name__}: {err}", tags=["constructor"])
                continue
            probs = extra_check(p)
            if not probs and alpha(p) != expected:
                probs.append(f"value {alpha(p)!r} != {expected!r}")
            if probs:
                R.fail(fname, "wrong-value", f"{label}: " + "; ".join(probs), tags=["constructor"])
            R.state((fname, label))
    # polynomial(ndpoly, names=...), aspolynomial identity, structured arrays, symbols/variable/monomial/...
    srcs = [build_checked(C01.arr(s, kind, 1, variant=v)) for s in [(), (2,), (2, 2)] for kind in ("int", "float")
            for v in ("canon", "T", "zeroterm", "unusedname")]
    for p in srcs:
        m = alpha(p)
        for fname, f, exp in (
            ("polynomial(ndpoly)", lambda: numpoly.polynomial(p), m),
            ("aspolynomial(ndpoly)", lambda: numpoly.aspolynomial(p), m),
            ("polynomial(values,names)", lambda: numpoly.polynomial(p.values, names=p.names), m),
            ("polynomial(list(p))", lambda: numpoly.polynomial(list(p)) if p.ndim else numpoly.polynomial([p])[0], m),
            ("copy", lambda: p.copy(), m),
        ):
            R.tr()
            try:
                q = f()
            except Exception as err:  # noqa: BLE001
                R.fail(fname, "exception", f"{type(err).__name__}: {err} for {p!r}", tags=["constructor"])
                continue
            probs = extra_check(q)
            if not probs and (alpha(q) != exp or q.shape != p.shape):
                probs.append(f"value {alpha(q)!r} != {exp!r}")
            if probs:
                R.fail(fname, "wrong-value", "; ".join(probs) + f" for {p!r}", tags=["constructor"])
    makers = [
        ("variable()", lambda: numpoly.variable(), V.var("q0")),
        ("variable(3)", lambda: numpoly.variable(3), None),
        ("symbols('q0')", lambda: numpoly.symbols("q0"), V.var("q0")),
        ("symbols('q2 q10')", lambda: numpoly.symbols("q2 q10"), None),
        ("symbols('q:3')", lambda: numpoly.symbols("q:3"), None),
        ("symbols('q1,')", lambda: numpoly.symbols("q1,"), None),
        ("monomial(3)", lambda: numpoly.monomial(3), None),
        ("monomial(2,4,dimensions=2)", lambda: numpoly.monomial(2, 4, dimensions=2), None),
        ("monomial names", lambda: numpoly.monomial(3, dimensions=("q2", "q10")), None),
        ("zeros((2,))", lambda: numpoly.zeros((2,)), V.const(numpy.zeros((2,), dtype=int))),
        ("ones((2,2))", lambda: numpoly.ones((2, 2)), V.const(numpy.ones((2, 2), dtype=int))),
        ("full", lambda: numpoly.full((2,), numpoly.variable() * 2), V.var("q0", (2,)) * 2),
        ("zeros_like", lambda: numpoly.zeros_like(numpoly.variable(2)), V.const(numpy.zeros((2,), dtype=int))),
        ("ones_like", lambda: numpoly.ones_like(numpoly.variable(2)), V.const(numpy.ones((2,), dtype=int))),
        ("full_like", lambda: numpoly.full_like(numpoly.variable(2), numpoly.symbols("q1") ** 2), V.var("q1", (2,)) ** 2),
        ("indeterminants", lambda: (numpoly.symbols("q1") * numpoly.symbols("q4")).indeterminants, None),
        ("polynomial_from_roots", lambda: numpoly.polynomial_from_roots([1, 2]),
         (V.var("q0") - 1) * (V.var("q0") - 2)),
    ]
    for label, f, exp in makers:
        R.tr()
        try:
            q = f()
        except Exception as err:  # noqa: BLE001
            R.fail(label, "exception", f"{type(err).__name__}: {err}", tags=["constructor"])
            continue
        probs = extra_check(q)
        if not probs and exp is not None and alpha(q) != exp:
            probs.append(f"value {alpha(q)!r} != {exp!r}")
        if probs:
            R.fail(label, "wrong-value", "; ".join(probs), tags=["constructor"])
        R.state(label)


def cases(tier, seed):
    out = []
    for c in C01.cases("quick", seed):
        if c["k"] == "packed":
            continue
        if tier == "quick":
            if c["k"] == "u0row" and c["i"] % 4 != seed % 4:
                continue
            if c["k"] == "prog" and c["i"] % 3 != seed % 3:
                continue
            if c["k"] in ("shapes", "powarray") and (hash((tuple(c["a"]), tuple(c["b"]))) % 2):
                continue
        out.append(dict(c, via="C01"))
    out.extend(triple_cases())
    out.append({"k": "entrypoints"})
    out.append({"k": "constructors"})
    return out


def run_case(case, R):
    k = case["k"]
    if case.get("via") == "C01" or k == "expr":
        C01.run_case(case, R, extra_check=extra_check)
    elif k == "rename":
        run_rename(case, R)
    elif k == "dupnames":
        run_dupnames(case, R)
    elif k == "triples":
        run_triples(case, R)
    elif k == "triple1":
        run_triple1(case, R)
    elif k == "entrypoints":
        run_entrypoints(case, R)
    elif k == "constructors":
        run_constructors(case, R)
    else:
        raise KeyError(k)
