"""History exploration: the result of a public call must not depend on which calls the process made before it.

Explicit-state search over CALL HISTORIES of the real library.  A menu of (function, input variant) entries is laid out
below; an *observation* of an entry is the byte-level snapshot (mc.snap) of its result and of its arguments after the
call, or the type of the exception it raised.  The reference for entry B is its observation when B is the FIRST library
call of a process.  For every history H in the explored set (all ordered sibling pairs - same function, another input
variant -, every other menu entry as a one-call prefix, the same call repeated, each with and without the caller
overwriting the earlier results) the observation of B after H is compared with the reference.  Every history runs in its
own forked child of a pristine "zygote" interpreter that has imported the library and made no call, so the process
state at the start of each history is the same and the only difference between two runs is the history itself.

The oracle is differential (no expected values written by hand): whether B's first-call result is *right* is the
business of the property checks; this decides that it is the same result whatever came before."""
import contextlib
import copy
import hashlib
import io
import json
import os
import pickle
import select
import signal
import subprocess
import sys
import time

import numpy

from . import tree  # noqa: F401
import numpoly

from .alpha import build_checked, spec
from .snap import snap, scribble, describe_change

VARIANTS = ("base", "values", "exps", "dtype", "f4", "narrow", "names", "names2", "varname", "shape", "order", "retain", "retain_names")
CTX = {"order": {"sort_graded": False, "sort_reverse": True, "display_graded": False},
       "retain": {"retain_coefficients": True, "retain_names": False},
       "retain_names": {"retain_names": False},
       "varname": {"default_varname": "pq", "varname_filter": r"[pq]+\d+"}}
QUICK_PREFIX_VARIANTS = ("base", "exps", "narrow", "order")   # the same inputs as the observed call / differing in exponents / dtype / options only
THOROUGH_OBSERVED_VARIANTS = ("base", "exps", "names2", "retain")
QUICK_WINDOW = 6
QUICK_VARIANTS = ("base", "values", "exps", "dtype", "f4", "narrow", "names", "names2", "varname", "order", "retain_names")
QUICK_SLOW_VARIANTS = ("base", "values", "exps", "narrow", "order")


def _slow(label):
    return any(t in label for t in (" / ", " % ", " // ", "divmod", "poly_div", "poly_rem", "true_divide", "(n0=", "(n1=", "x()", "m(1.5)", "call(", "roots", "array_str"))


DTYPES = {"dtype": "f8", "f4": "f4", "narrow": "i2"}


class Fix:
    """the arguments of one call, built afresh (through the trusted builder) for every call"""

    def __init__(self, variant):
        names = ("q1", "q2") if variant in ("names", "retain_names") else ("q13", "q20") if variant in ("names2", "varname") else ("q0", "q1")
        dt = DTYPES.get(variant, "i8")
        off = 100 if variant == "values" else 0
        n = 4 if variant == "shape" else 3
        k = 3 if variant == "shape" else 2
        e1 = [(1, 0), (0, 2), (1, 1), (0, 0)] if variant == "exps" else [(1, 0), (0, 1), (2, 1), (0, 0)]
        e2 = [(0, 1), (3, 0), (1, 3)] if variant == "exps" else [(0, 1), (2, 0), (3, 1)]   # y has no constant term: each operand lacks terms of the other, the lowest included
        self.variant, self.names, self.n, self.k = variant, names, n, k
        self.n0, self.n1 = names
        self._e1, self._e2, self._off, self._dt = e1, e2, off, dt
        self._built = {}
        self._touched = set()
        self.kw = {self.n1: 3}          # a keyword dictionary the caller keeps and passes again

    def __getattr__(self, key):           # arguments are built when first used: only those the call touches
        if key.startswith("_"):
            raise AttributeError(key)
        if key in self._built:
            self._touched.add(key)
            return self._built[key]
        names, n, k, e1, e2, off, dt = self.names, self.n, self.k, self._e1, self._e2, self._off, self._dt
        if key == "x":
            v = build_checked(spec(names, (n,), [(e, [off + 10 * j + i + 1 for i in range(n)]) for j, e in enumerate(e1)], dt))
        elif key == "y":
            v = build_checked(spec(names, (n,), [(e, [(off + 7 * j + 3 * i) % 5 - 2 for i in range(n)]) for j, e in enumerate(e2)], dt))
        elif key == "m":
            v = build_checked(spec(names, (k, k), [(e, [off + 5 * j + i - 2 for i in range(k * k)]) for j, e in enumerate(e1[:3])], dt))
        elif key == "s":
            v = build_checked(spec(names, (), [(e, off + 2 * j + 1) for j, e in enumerate(e1)], dt))
        elif key == "d":
            v = build_checked(spec(names[:1], (), [((1,), 1), ((0,), off + 2)], dt))
        elif key == "c":
            v = build_checked(spec(names[:1], (n,), [((0,), [off + 3 * i - 4 for i in range(n)])], dt))
        elif key == "cf":
            v = build_checked(spec(names[:1], (n,), [((0,), [off + 1.5 * i - 2.25 for i in range(n)])], "f8"))
        elif key == "h":
            v = build_checked(spec(names, (), [((2 ** 31 + 5 + off, 1), 2), ((1, 2 ** 30), 3), ((0, 0), 1)], dt))
        elif key == "u":      # u and w: which is larger depends on the sort options
            v = build_checked(spec(names, (n,), [((2, 0), [1 + i % 2 for i in range(n)]), ((0, 1), [off + i + 1 for i in range(n)])], dt))
        elif key == "w":
            v = build_checked(spec(names, (n,), [((0, 3), [1] * n), ((1, 0), [off + 2 * i + 1 for i in range(n)])], dt))
        elif key == "raw":
            v = numpy.array([off + 2 * i - 3 for i in range(n)], dtype=dt)
        else:
            raise AttributeError(key)
        self._built[key] = v
        self._touched.add(key)
        return v

    def args(self):
        return [self._built[k] for k in sorted(self._touched)] + [sorted(self.kw.items())]


def _text(p, **kw):
    f = io.StringIO()
    numpoly.savetxt(f, p, **kw)
    return f.getvalue()


def _retext(p, **kw):
    f = io.StringIO()
    numpoly.savetxt(f, p, **kw)
    f.seek(0)
    return numpoly.loadtxt(f, **kw)


def _path():
    return os.path.join(os.environ.get("TMPDIR", "/var/tmp"), f"numpoly-verif-history-{os.getpid()}.txt")


def _retext_path(p):
    """through a named file; the same name is used again by later calls of the same history"""
    path = _path()
    try:
        numpoly.savetxt(path, p)
        return numpoly.loadtxt(path)
    finally:
        if os.path.exists(path):
            os.remove(path)


def _npz(p):
    f = io.BytesIO()
    numpy.save(f, p)
    f.seek(0)
    return numpy.load(f, allow_pickle=True)


def _opts(**kw):
    with numpoly.global_options(**kw):
        inner = numpoly.get_options()
    return inner, numpoly.get_options()


def _opts_raise(**kw):
    try:
        with numpoly.global_options(**kw):
            raise KeyError("x")
    except KeyError:
        pass
    return numpoly.get_options()


def _nested():
    seen = []
    with numpoly.global_options(display_exponent="^"):
        with numpoly.global_options(display_multiply="."):
            seen.append(numpoly.get_options())
        seen.append(numpoly.get_options())
    seen.append(numpoly.get_options())
    return seen


def _mutate_returned_options():
    o = numpoly.get_options()
    o["display_exponent"] = "^^"
    o["default_varname"] = "zz"
    return numpoly.get_options()


def _env():
    return {"options": numpoly.get_options(), "geterr": numpy.geterr(), "print": sorted((k, repr(v)) for k, v in numpy.get_printoptions().items())}


def _sympy(p):
    return str(numpoly.to_sympy(p))


# (function label, properties it belongs to, call)
FUNCS = [
    # C01 ring arithmetic
    ("x + y", "C01 C08", lambda F: F.x + F.y), ("n0 + n1", "C01 C15 C04", lambda F: numpoly.symbols(F.n0) + numpoly.symbols(F.n1)), ("n0 * n1 - n1", "C01 C15", lambda F: numpoly.symbols(F.n0) * numpoly.symbols(F.n1) - numpoly.symbols(F.n1)),
    ("polynomial([n0, n1])", "C03 C15", lambda F: numpoly.polynomial([numpoly.symbols(F.n0), numpoly.symbols(F.n1)])), ("numpy.add(x, y)", "C01 C08", lambda F: numpy.add(F.x, F.y)),
    ("x - y", "C01", lambda F: F.x - F.y), ("x * y", "C01 C20 C15 C12", lambda F: F.x * F.y), ("multiply(x, s)", "C01", lambda F: numpoly.multiply(F.x, F.s)),
    ("x ** 3", "C01", lambda F: F.x ** 3), ("power(x, [0, 1, 2..])", "C01", lambda F: numpoly.power(F.x, list(range(F.n)))),
    ("square(m)", "C01", lambda F: numpoly.square(F.m)), ("-x", "C01", lambda F: -F.x), ("+x", "C01", lambda F: +F.x),
    ("x * 2 + 1 - y", "C01", lambda F: F.x * 2 + 1 - F.y), ("raw + x", "C01", lambda F: F.raw + F.x), ("x - x", "C01 C03 C15 C12", lambda F: F.x - F.x),
    ("s * s * s", "C01", lambda F: F.s * F.s * F.s), ("m * m.T", "C01", lambda F: F.m * F.m.T),
    # C02 evaluation
    ("s(2, 3)", "C02", lambda F: F.s(2, 3)), ("x(n0=2)", "C02", lambda F: F.x(**{F.n0: 2})), ("x(n0=d)", "C02", lambda F: F.x(**{F.n0: F.d})),
    ("s(n1=[1, 2])", "C02", lambda F: F.s(**{F.n1: [1, 2]})), ("x(n1=n0)", "C02", lambda F: F.x(**{F.n1: numpoly.symbols(F.n0)})),
    ("x()", "C02", lambda F: F.x()), ("m(1.5)", "C02", lambda F: F.m(1.5)), ("call(s, (1, 2))", "C02", lambda F: numpoly.call(F.s, (1, 2))),
    ("tonumpy(c)", "C02 C19 C11", lambda F: numpoly.tonumpy(F.c)), ("isconstant(x)", "C02 C19", lambda F: numpoly.isconstant(F.x)),
    ("isconstant(c)", "C02 C19", lambda F: numpoly.isconstant(F.c)), ("outer(x, y)", "C02 C10", lambda F: numpoly.outer(F.x, F.y)),
    # C03 construction / attributes
    ("from_attributes(x...)", "C03 C12 C15", lambda F: numpoly.polynomial_from_attributes(F.x.exponents, F.x.coefficients, F.x.names)),
    ("from_attributes(zero term)", "C03 C12 C15", lambda F: numpoly.polynomial_from_attributes([(0, 0), (1, 0), (0, 2)], [F.raw, F.raw * 0, F.raw + 1], F.names)),
    ("polynomial([s, 1, d])", "C03 C12", lambda F: numpoly.polynomial([F.s, 1, F.d])), ("polynomial(x)", "C03", lambda F: numpoly.polynomial(F.x)),
    ("polynomial(dict)", "C03", lambda F: numpoly.polynomial({(1, 0): F.raw, (0, 2): F.raw + 1}, names=F.names)),
    ("polynomial(raw, dtype=float)", "C03 C12", lambda F: numpoly.polynomial(F.raw, dtype=float)),
    ("aspolynomial(x)", "C03 C17", lambda F: numpoly.aspolynomial(F.x)), ("aspolynomial(x, names)", "C03", lambda F: numpoly.aspolynomial(F.x, names=("q5", "q6"))),
    ("aspolynomial(raw)", "C03", lambda F: numpoly.aspolynomial(F.raw)),
    ("clean_attributes(x - x + y)", "C03 C15", lambda F: numpoly.clean_attributes(F.x - F.x + F.y)),
    ("remove_redundant_names(d * 1)", "C03", lambda F: numpoly.remove_redundant_names(numpoly.set_dimensions(F.d, 3))),
    ("attributes of x", "C03", lambda F: (F.x.exponents, F.x.coefficients, F.x.names, F.x.keys, F.x.values, F.x.indeterminants)),
    ("attributes of s * d", "C03", lambda F: (lambda p: (p.exponents, p.coefficients, p.names, p.keys))(F.s * F.d)),
    ("polynomial_from_roots", "C03", lambda F: numpoly.polynomial_from_roots(F.raw)),
    ("x.todict", "C03", lambda F: sorted((k, v.tolist()) for k, v in F.x.todict().items())),
    # C04 alignment
    ("align_polynomials(x, y[:1])", "C04 C17 C15", lambda F: numpoly.align_polynomials(F.x, F.y[:1])), ("align_exponents(x, y)", "C04 C17", lambda F: numpoly.align_exponents(F.x, F.y)),
    ("align_indeterminants(x, d)", "C04 C17", lambda F: numpoly.align_indeterminants(F.x, numpoly.symbols("q7") + F.d)),
    ("align_shape(x, s)", "C04", lambda F: numpoly.align_shape(F.x, F.s)), ("align_dtype(x, cf)", "C04", lambda F: numpoly.align.align_dtype(F.x, F.cf)),
    ("align_polynomials(x, raw, 2.5)", "C04", lambda F: numpoly.align_polynomials(F.x, F.raw, 2.5)),
    # C05 division
    ("poly_divmod(s, d)", "C05 C17", lambda F: numpoly.poly_divmod(F.s, F.d)), ("poly_divide(x, d)", "C05 C17", lambda F: numpoly.poly_divide(F.x, F.d)),
    ("poly_remainder(x, d)", "C05", lambda F: numpoly.poly_remainder(F.x, F.d)), ("x / 2", "C05", lambda F: F.x / 2),
    ("true_divide(x, raw+9)", "C05", lambda F: numpoly.true_divide(F.x, F.raw + 9)), ("x // 2", "C05", lambda F: F.x // 2), ("x % 3", "C05", lambda F: F.x % 3),
    ("divmod(x, 4)", "C05", lambda F: divmod(F.x, 4)), ("poly_divmod(s * d, d)", "C05", lambda F: numpoly.poly_divmod(F.s * F.d, F.d)),
    # C06 derivatives
    ("derivative(x, n0)", "C06 C20 C17 C15", lambda F: numpoly.derivative(F.x, F.n0)), ("derivative(x, n0, n1)", "C06", lambda F: numpoly.derivative(F.x, F.n0, F.n1)),
    ("derivative(x, aligned n0)", "C06", lambda F: numpoly.derivative(F.x, numpoly.align_polynomials(*numpoly.symbols(F.n0 + " " + F.n1))[0])),
    ("derivative(x, aligned n1)", "C06", lambda F: numpoly.derivative(F.x, numpoly.align_polynomials(*numpoly.symbols(F.n0 + " " + F.n1))[1])),
    ("derivative(s, symbol)", "C06", lambda F: numpoly.derivative(F.s, numpoly.symbols(F.n1))), ("gradient(x)", "C06 C17", lambda F: numpoly.gradient(F.x)),
    ("hessian(s)", "C06", lambda F: numpoly.hessian(F.s)), ("derivative(c, n0)", "C06 C15", lambda F: numpoly.derivative(F.c, F.n0)),
    # C07 order
    ("x < y", "C07 C15", lambda F: F.x < F.y), ("x <= y", "C07", lambda F: F.x <= F.y), ("x > y", "C07", lambda F: F.x > F.y), ("x >= y", "C07", lambda F: F.x >= F.y),
    ("x == where(raw > 0, x, y)", "C07 C17", lambda F: F.x == numpoly.where(F.raw > 0, F.x, F.y)), ("x != where(raw > 0, y, x)", "C07 C17", lambda F: F.x != numpoly.where(F.raw > 0, F.y, F.x)),
    ("x <= where(raw > 0, x, y)", "C07", lambda F: F.x <= numpoly.where(F.raw > 0, F.x, F.y)), ("equal(mask, raw > 1)", "C07 C17 C11", lambda F: numpoly.equal(F.raw > 0, F.raw > 1)),
    ("x == y", "C07 C17", lambda F: F.x == F.y), ("x != y", "C07 C17", lambda F: F.x != F.y), ("x == x * 1", "C07", lambda F: F.x == F.x * 1),
    ("maximum(x, y)", "C07", lambda F: numpoly.maximum(F.x, F.y)), ("minimum(x, y)", "C07", lambda F: numpoly.minimum(F.x, F.y)),
    ("numpy.less(x, s)", "C07 C08", lambda F: numpy.less(F.x, F.s)), ("x < 3", "C07", lambda F: F.x < 3),
    ("u < w", "C07 C15", lambda F: F.u < F.w), ("u > w", "C07", lambda F: F.u > F.w), ("u >= w", "C07", lambda F: F.u >= F.w), ("maximum(u, w)", "C07", lambda F: numpoly.maximum(F.u, F.w)),
    ("sortable_proxy(u + w)", "C07 C19", lambda F: numpoly.sortable_proxy(numpoly.concatenate([F.u, F.w]))), ("lead_exponent(u + w)", "C19", lambda F: numpoly.lead_exponent(F.u + F.w)),
    ("lead_coefficient(u + w)", "C19", lambda F: numpoly.lead_coefficient(F.u + 2 * F.w)), ("str(u + w)", "C16", lambda F: str(F.u + F.w)), ("argmax(concatenate([u, w]))", "C19 C07", lambda F: numpoly.argmax(numpoly.concatenate([F.u, F.w]))),
    # C08 spellings
    ("numpy.sum(x)", "C08 C10", lambda F: numpy.sum(F.x)), ("x.sum()", "C08 C10", lambda F: F.x.sum()), ("numpy.concatenate([x, y])", "C08 C09", lambda F: numpy.concatenate([F.x, F.y])),
    ("numpy.multiply(x, y)", "C08 C01", lambda F: numpy.multiply(F.x, F.y)), ("numpy.linalg.inv(m)", "C08", lambda F: numpy.linalg.inv(F.m)),
    ("numpy.sin(x)", "C08", lambda F: numpy.sin(F.x)), ("numpy.mean(m, 0)", "C08 C10", lambda F: numpy.mean(F.m, 0)), ("m.mean(1)", "C08 C10", lambda F: F.m.mean(1)),
    ("numpy.add.reduce(m)", "C08 C10", lambda F: numpy.add.reduce(F.m)), ("numpy.add.reduce(m, 1, keepdims)", "C08 C10", lambda F: numpy.add.reduce(F.m, axis=1, keepdims=True)),
    ("numpy.multiply.reduce(x)", "C08 C10", lambda F: numpy.multiply.reduce(F.x)), ("numpy.add.accumulate(x)", "C08 C10", lambda F: numpy.add.accumulate(F.x)),
    ("numpy.outer(x, y)", "C08", lambda F: numpy.outer(F.x, F.y)), ("numpy.linalg.outer(x, y)", "C08", lambda F: numpy.linalg.outer(F.x, F.y)),
    ("numpy.diagonal(m)", "C08", lambda F: numpy.diagonal(F.m)), ("numpy.linalg.diagonal(m)", "C08", lambda F: numpy.linalg.diagonal(F.m)),
    ("numpy.prod(x)", "C08", lambda F: numpy.prod(F.x)), ("x.prod()", "C08", lambda F: F.x.prod()), ("numpy.cumsum(x)", "C08", lambda F: numpy.cumsum(F.x)),
    # C09 shapes and indexing
    ("reshape(m, -1)", "C09", lambda F: numpoly.reshape(F.m, -1)), ("transpose(m)", "C09", lambda F: numpoly.transpose(F.m)), ("moveaxis(m, 0, 1)", "C09", lambda F: numpoly.moveaxis(F.m, 0, 1)),
    ("expand_dims(x, 0)", "C09", lambda F: numpoly.expand_dims(F.x, 0)), ("atleast_1d(s)", "C09", lambda F: numpoly.atleast_1d(F.s)), ("atleast_2d(x)", "C09", lambda F: numpoly.atleast_2d(F.x)),
    ("atleast_3d(x, s)", "C09", lambda F: numpoly.atleast_3d(F.x, F.s)), ("repeat(x, 2, 0)", "C09", lambda F: numpoly.repeat(F.x, 2, axis=0)), ("tile(x, 2)", "C09", lambda F: numpoly.tile(F.x, 2)),
    ("concatenate([x, y])", "C09", lambda F: numpoly.concatenate([F.x, F.y])), ("stack([x, y])", "C09", lambda F: numpoly.stack([F.x, F.y])), ("hstack([x, y])", "C09", lambda F: numpoly.hstack([F.x, F.y])),
    ("vstack([x, y])", "C09", lambda F: numpoly.vstack([F.x, F.y])), ("dstack([x, y])", "C09", lambda F: numpoly.dstack([F.x, F.y])), ("array_split(x, 2)", "C09", lambda F: numpoly.array_split(F.x, 2)),
    ("split(tile(x, 2), 2)", "C09", lambda F: numpoly.split(numpoly.tile(F.x, 2), 2)), ("x[::-1]", "C09", lambda F: F.x[::-1]), ("x[[2, 0]]", "C09", lambda F: F.x[[2, 0]]),
    ("m[:, 1]", "C09", lambda F: F.m[:, 1]), ("m.T", "C09", lambda F: F.m.T), ("diagonal(m)", "C09", lambda F: numpoly.diagonal(F.m)), ("diag(x)", "C09", lambda F: numpoly.diag(F.x)),
    ("broadcast_arrays(x, s)", "C09", lambda F: numpoly.broadcast_arrays(F.x, F.s)), ("where(x > y, x, y)", "C09 C07", lambda F: numpoly.where(F.raw > 0, F.x, F.y)),
    ("choose", "C09", lambda F: numpoly.choose([1, 0, 1, 0][:F.n], [F.x, F.y])), ("x.flatten()", "C09", lambda F: F.m.flatten()), ("m.ravel()", "C09", lambda F: F.m.ravel()),
    ("list(m)", "C09", lambda F: list(F.m)),
    ("x[1]", "C09", lambda F: F.x[1]), ("m[0]", "C09", lambda F: F.m[0]), ("x[raw > 0]", "C09", lambda F: F.x[F.raw > 0]),
    # C10 reductions
    ("sum(m, 0)", "C10", lambda F: numpoly.sum(F.m, axis=0)), ("sum(m, keepdims)", "C10", lambda F: numpoly.sum(F.m, axis=1, keepdims=True)), ("cumsum(x)", "C10", lambda F: numpoly.cumsum(F.x)),
    ("mean(x)", "C10", lambda F: numpoly.mean(F.x)), ("prod(x)", "C10", lambda F: numpoly.prod(F.x)), ("prod(m, 0)", "C10", lambda F: numpoly.prod(F.m, axis=0)), ("diff(x)", "C10 C12", lambda F: numpoly.diff(F.x)),
    ("ediff1d(x)", "C10 C12", lambda F: numpoly.ediff1d(F.x)), ("inner(x, y)", "C10", lambda F: numpoly.inner(F.x, F.y)), ("matmul(m, m)", "C10", lambda F: numpoly.matmul(F.m, F.m)),
    ("m @ m.T", "C10", lambda F: F.m @ F.m.T), ("det(m)", "C10", lambda F: numpoly.det(F.m)), ("cumsum(m, 1)", "C10", lambda F: numpoly.cumsum(F.m, axis=1)),
    # C11 constants like numpy
    ("floor(cf)", "C11", lambda F: numpoly.floor(F.cf)), ("ceil(cf)", "C11", lambda F: numpoly.ceil(F.cf)), ("rint(cf)", "C11", lambda F: numpoly.rint(F.cf)), ("around(cf, 1)", "C11", lambda F: numpoly.around(F.cf, 1)),
    ("absolute(c)", "C11", lambda F: numpoly.absolute(F.c)), ("isfinite(cf)", "C11", lambda F: numpoly.isfinite(F.cf)), ("isclose(cf, c)", "C11", lambda F: numpoly.isclose(F.cf, F.c)),
    ("allclose(cf, cf)", "C11", lambda F: numpoly.allclose(F.cf, F.cf + 1e-12)), ("any(c)", "C11", lambda F: numpoly.any(F.c)), ("all(c)", "C11", lambda F: numpoly.all(F.c)),
    ("logical_and(c, cf)", "C11", lambda F: numpoly.logical_and(F.c, F.cf)), ("logical_or(c, 0)", "C11", lambda F: numpoly.logical_or(F.c, 0)), ("count_nonzero(c)", "C11", lambda F: numpoly.count_nonzero(F.c - F.c[0])),
    ("nonzero(c)", "C11", lambda F: numpoly.nonzero(F.c - F.c[0])), ("sum(c)", "C11 C10", lambda F: numpoly.sum(F.c)), ("argmax(c)", "C11 C19", lambda F: numpoly.argmax(F.c)),
    ("apply_along_axis(sum, 0, m)", "C11", lambda F: numpoly.apply_along_axis(numpoly.sum, 0, F.m)), ("result_type(x, 1.5)", "C11 C12", lambda F: numpoly.result_type(F.x, 1.5)),
    ("common_type(x, cf)", "C11", lambda F: numpoly.common_type(F.x, F.cf)), ("c ** 2", "C11", lambda F: F.c ** 2), ("cf / 4", "C11 C05", lambda F: F.cf / 4), ("roots(d)", "C11", lambda F: numpoly.roots(F.d * F.d + F.d)),
    ("floor_divide(c, 2)", "C11", lambda F: numpoly.floor_divide(F.c, 2)), ("c // raw", "C11", lambda F: F.c // (F.raw * 2 + 1)), ("remainder(c, 3)", "C11", lambda F: numpoly.remainder(F.c, 3)),
    ("divmod(c, 2)", "C11", lambda F: numpoly.divmod(F.c, 2)), ("c * 2 + 1", "C11", lambda F: F.c * 2 + 1), ("negative(c)", "C11", lambda F: numpoly.negative(F.c)),
    ("maximum(c, 0)", "C11", lambda F: numpoly.maximum(F.c, 0)), ("minimum(c, raw)", "C11", lambda F: numpoly.minimum(F.c, F.raw)), ("where(c > 0, c, 0)", "C11", lambda F: numpoly.where(F.raw > 0, F.c, 0)),
    ("mean(c)", "C11", lambda F: numpoly.mean(F.c)), ("prod(c)", "C11", lambda F: numpoly.prod(F.c)), ("cumsum(c)", "C11", lambda F: numpoly.cumsum(F.c)), ("diff(c)", "C11", lambda F: numpoly.diff(F.c)),
    ("c == raw", "C11", lambda F: F.c == F.raw), ("c < raw", "C11", lambda F: F.c < F.raw), ("amax(c)", "C11", lambda F: numpoly.amax(F.c)), ("argmin(c)", "C11", lambda F: numpoly.argmin(F.c)),
    ("inner(c, c)", "C11", lambda F: numpoly.inner(F.c, F.c)), ("outer(c, raw)", "C11", lambda F: numpoly.outer(F.c, F.raw)), ("repeat(c, 2)", "C11", lambda F: numpoly.repeat(F.c, 2, axis=0)),
    ("concatenate([c, c])", "C11", lambda F: numpoly.concatenate([F.c, F.c])), ("sortable_proxy(c)", "C11", lambda F: numpoly.sortable_proxy(F.c)), ("square(c)", "C11", lambda F: numpoly.square(F.c)),
    # C12 dtypes and creation
    ("x.astype(float)", "C12", lambda F: F.x.astype(float)), ("x.astype(i1)", "C12", lambda F: F.x.astype("i1")), ("symbols('q1 q3')", "C12", lambda F: numpoly.symbols("q1 q3")),
    ("variable(3)", "C12", lambda F: numpoly.variable(F.n)), ("set_dimensions(x, 3)", "C12 C19", lambda F: numpoly.set_dimensions(F.x, 3)), ("set_dimensions(x, 1)", "C12 C19", lambda F: numpoly.set_dimensions(F.x, 1)),
    ("zeros", "C12", lambda F: numpoly.zeros((F.n,), dtype=F.raw.dtype)), ("ones", "C12", lambda F: numpoly.ones((2, F.n))), ("full((2,), s)", "C12 C09", lambda F: numpoly.full((2,), F.s)),
    ("zeros_like(x)", "C12", lambda F: numpoly.zeros_like(F.x)), ("ones_like(m)", "C12", lambda F: numpoly.ones_like(F.m)), ("full_like(x, s)", "C12 C09", lambda F: numpoly.full_like(F.x, F.s)),
    ("x * 1.5", "C12 C01", lambda F: F.x * 1.5), ("x + True", "C12", lambda F: F.x + True),
    # C13 round trips
    ("pickle(x)", "C13", lambda F: pickle.loads(pickle.dumps(F.x))), ("copy.copy(m)", "C13", lambda F: copy.copy(F.m)), ("deepcopy(x)", "C13", lambda F: copy.deepcopy(F.x)), ("x.copy()", "C13", lambda F: F.x.copy()),
    ("savetxt(x)", "C13 C20", lambda F: _text(F.x)), ("savetxt(m, fmt)", "C13", lambda F: _text(F.m, fmt="%.3e", delimiter=",")), ("loadtxt(savetxt(x))", "C13 C20", lambda F: _retext(F.x)),
    ("loadtxt(path) of x", "C13 C20", lambda F: _retext_path(F.x)), ("loadtxt(path) of [h, s]", "C13 C20", lambda F: _retext_path(numpoly.polynomial([F.h, F.s]))),
    ("loadtxt(savetxt(x, comments=%))", "C13", lambda F: _retext(F.x, comments="% ")), ("loadtxt(savetxt(m, delimiter=;))", "C13", lambda F: _retext(F.m, delimiter=";")),
    ("loadtxt(savetxt(m))", "C13", lambda F: _retext(F.m)), ("numpy.save/load(x)", "C13", lambda F: _npz(F.x)), ("pickle(s)", "C13", lambda F: pickle.loads(pickle.dumps(F.s, 2))),
    # C14 options machine
    ("get_options()", "C14 C15", lambda F: numpoly.get_options()), ("global_options block", "C14", lambda F: _opts(display_exponent="^", sort_reverse=True)),
    ("global_options block that raises", "C14", lambda F: _opts_raise(display_multiply=".", retain_names=False)), ("nested blocks", "C14", lambda F: _nested()),
    ("caller edits get_options() result", "C14", lambda F: _mutate_returned_options()), ("get_options(defaults=True)", "C14", lambda F: numpoly.get_options(defaults=True)),
    ("bad option name", "C14", lambda F: _opts(no_such_option=1)),
    # C16 printing
    ("str(x)", "C16 C15", lambda F: str(F.x)), ("repr(m)", "C16 C15", lambda F: repr(F.m)), ("str(s)", "C16", lambda F: str(F.s)), ("str(c)", "C16", lambda F: str(F.c)), ("repr(cf * d)", "C16", lambda F: repr(F.cf * F.d)),
    ("to_sympy(s)", "C16", lambda F: _sympy(F.s)), ("to_sympy(x)", "C16", lambda F: _sympy(F.x)), ("array_str(x, precision)", "C16", lambda F: numpoly.array_str(F.cf * F.d / 3, precision=3)),
    ("str(variable(2)[1])", "C16", lambda F: str(numpoly.variable(2)[1])), ("str(3 * d - 2)", "C16", lambda F: str(3 * F.d - 2)),
    ("str under ^", "C16", lambda F: _str_under(F.s, display_exponent="^", display_multiply="")), ("str(x - x)", "C16", lambda F: str(F.x - F.x)), ("str(h)", "C16 C20", lambda F: str(F.h)),
    # C18 index generation
    ("glexindex(n, dims=2)", "C18", lambda F: numpoly.glexindex(F.n, dimensions=2)), ("glexindex(1, n, 3, ct)", "C18", lambda F: numpoly.glexindex(1, F.n, dimensions=3, cross_truncation=0.7)),
    ("glexindex graded reverse", "C18", lambda F: numpoly.glexindex(F.n, dimensions=2, graded=True, reverse=True)), ("glexsort(idx)", "C18", lambda F: numpoly.glexsort(numpy.array([F.raw % 3, (F.raw + 1) % 2]))),
    ("glexsort graded", "C18", lambda F: numpoly.glexsort(numpy.array([F.raw % 3, (F.raw + 1) % 2]), graded=True, reverse=True)),
    ("glexsort(aligned exponents of x, y)", "C18 C07 C19", lambda F: numpoly.glexsort(numpoly.align_exponents(F.x, F.y)[0].exponents.T, graded=numpoly.get_options()["sort_graded"],
                                                                                       reverse=numpoly.get_options()["sort_reverse"])),
    ("glexsort(x.exponents.T)", "C18 C19 C16", lambda F: numpoly.glexsort(F.x.exponents.T, graded=numpoly.get_options()["sort_graded"], reverse=numpoly.get_options()["sort_reverse"])),
    ("glexindex(n, dims=3, ct=0)", "C18", lambda F: numpoly.glexindex(F.n, dimensions=3, cross_truncation=0)), ("glexindex(n, dims=3, ct=1)", "C18", lambda F: numpoly.glexindex(F.n, dimensions=3, cross_truncation=1)),
    ("glexindex(n, dims=3, ct=2)", "C18", lambda F: numpoly.glexindex(F.n, dimensions=3, cross_truncation=2.0)), ("glexindex(0, n, dims=3)", "C18", lambda F: numpoly.glexindex(0, F.n, dimensions=3)),
    ("cross_truncate(grid, -1, 1)", "C18", lambda F: numpoly.cross_truncate(numpoly.glexindex(F.n, dimensions=2), -1, 1)), ("cross_truncate(grid, 2, 1)", "C18", lambda F: numpoly.cross_truncate(numpoly.glexindex(F.n, dimensions=2), 2, 1)),
    ("cross_truncate", "C18", lambda F: numpoly.cross_truncate(numpoly.glexindex(F.n, dimensions=2), F.n - 1, 0.5)), ("bindex(n, 2)", "C18", lambda F: numpoly.bindex(F.n, dimensions=2)),
    ("bindex(1, n, 3, ordering)", "C18", lambda F: numpoly.bindex(1, F.n, dimensions=3, ordering="GR")), ("monomial(n, dims=2)", "C18 C12", lambda F: numpoly.monomial(F.n, dimensions=2)),
    ("monomial(1, n, names)", "C18", lambda F: numpoly.monomial(1, F.n, dimensions=F.names)), ("monomial graded", "C18", lambda F: numpoly.monomial(F.n, dimensions=2, graded=True, reverse=True)),
    # C19 leading terms
    ("lead_exponent(x)", "C19 C15", lambda F: numpoly.lead_exponent(F.x)), ("lead_exponent(x, graded)", "C19", lambda F: numpoly.lead_exponent(F.x, graded=True, reverse=True)),
    ("lead_coefficient(x)", "C19", lambda F: numpoly.lead_coefficient(F.x)), ("lead_coefficient(m, graded)", "C19", lambda F: numpoly.lead_coefficient(F.m, graded=True)),
    ("decompose(x)", "C19", lambda F: numpoly.decompose(F.x)), ("sortable_proxy(x)", "C19 C07 C15", lambda F: numpoly.sortable_proxy(F.x)), ("sortable_proxy(m, graded)", "C19", lambda F: numpoly.sortable_proxy(F.m, graded=True, reverse=True)),
    ("argmax(x)", "C19", lambda F: numpoly.argmax(F.x)), ("argmin(m, 0)", "C19", lambda F: numpoly.argmin(F.m, axis=0)), ("max(x)", "C19", lambda F: numpoly.max(F.x)), ("min(m, 1)", "C19", lambda F: numpoly.min(F.m, axis=1)),
    ("tonumpy(x - x + c)", "C19", lambda F: numpoly.tonumpy(numpoly.sum(F.x) - numpoly.sum(F.x) + F.c)),
    # C20 huge exponents
    ("h * x", "C20", lambda F: F.h * F.x), ("h * h", "C20", lambda F: F.h * F.h), ("h ** 1 + x", "C20", lambda F: F.h ** 1 + F.x), ("derivative(h, n0)", "C20 C06", lambda F: numpoly.derivative(F.h, F.n0)),
    ("loadtxt(savetxt(h))", "C20 C13", lambda F: _retext(numpoly.polynomial([F.h, F.s]))), ("h == h + 0", "C20 C07", lambda F: F.h == F.h + 0), ("pickle(h)", "C20 C13", lambda F: pickle.loads(pickle.dumps(F.h))),
    # error paths (prefixes that fail half-way must leave nothing behind)
    ("err: x(q9=1)", "C02", lambda F: F.x(q9=1)), ("err: reshape(x, 7)", "C09", lambda F: numpoly.reshape(F.x, 7)), ("err: derivative(x, 3.5)", "C06", lambda F: numpoly.derivative(F.x, 3.5)),
    ("err: poly_divmod(s, 0)", "C05", lambda F: numpoly.poly_divmod(F.s, F.s - F.s)), ("err: loadtxt(garbage)", "C13", lambda F: numpoly.loadtxt(io.StringIO("a b c\n1 2\n"))),
    ("err: symbols('1bad')", "C12", lambda F: numpoly.symbols("1bad")), ("err: set_options(bad)", "C14", lambda F: numpoly.set_options(no_such_option=2)),
    ("err: from_attributes(duplicate, retain flags)", "C03 C15", lambda F: numpoly.polynomial_from_attributes([[1, 0], [1, 0]], [F.raw, F.raw], F.names, retain_coefficients=True, retain_names=False)),
    ("err: from_attributes(mismatch)", "C03", lambda F: numpoly.polynomial_from_attributes([(1, 0)], [F.raw, F.raw], F.names)),
    ("err: concatenate mismatch", "C09", lambda F: numpoly.concatenate([F.m, F.x])), ("err: x < 1j", "C07", lambda F: F.x < numpoly.polynomial([1j] * F.n)),
    ("err: matmul mismatch", "C10", lambda F: numpoly.matmul(F.m, numpoly.tile(F.x, 2))), ("err: align with bad name", "C04", lambda F: numpoly.align_polynomials(F.x, numpoly.symbols("q1:3")["bad"])),
    ("err: copyto readonly", "C17", lambda F: _copyto_readonly(F)),
]


def _str_under(p, **kw):
    with numpoly.global_options(**kw):
        return str(p)


def _copyto_readonly(F):
    t = F.x.copy()
    numpy.ndarray.view(t, numpy.ndarray).flags.writeable = False
    numpoly.copyto(t, F.y)
    return t


class _Bumped:
    """what a caller does between two calls: an in-place update of an array it owns (every coefficient + 1); the update
    is taken back when the call has returned, so that the next call of the history sees the arguments it expects"""

    def __init__(self, p):
        self.p = p

    def _add(self, k):
        raw = numpy.ndarray.view(self.p, numpy.ndarray)
        if raw.dtype.names:
            for key in raw.dtype.names:
                raw[key] += k
        else:
            raw += k

    def __enter__(self):
        self._add(1)
        return self.p

    def __exit__(self, *exc):
        self._add(-1)
        return False


def _bump(p, f):
    with _Bumped(p) as q:
        return f(q)


UPDATES = [
    ("x updated in place; x / 2", "C05", lambda F: _bump(F.x, lambda x: x / 2)), ("x updated in place; x // 2", "C05", lambda F: _bump(F.x, lambda x: x // 2)),
    ("s updated in place; s % d", "C05", lambda F: _bump(F.s, lambda p: p % F.d)), ("s / d", "C05", lambda F: F.s / F.d), ("divmod(s, d)", "C05", lambda F: divmod(F.s, F.d)), ("x updated in place; x % 3", "C05", lambda F: _bump(F.x, lambda x: x % 3)),
    ("raw updated in place; raw / d", "C05", lambda F: _bump(F.raw, lambda r: r / (F.d + F.d * F.d))), ("s updated in place; poly_divmod(s, d)", "C05", lambda F: _bump(F.s, lambda p: numpoly.poly_divmod(p, F.d))),
    ("x updated in place; x + y", "C01", lambda F: _bump(F.x, lambda x: x + F.y)), ("x updated in place; x * y", "C01 C20", lambda F: _bump(F.x, lambda x: x * F.y)),
    ("x updated in place; x(n0=2)", "C02", lambda F: _bump(F.x, lambda x: x(**{F.n0: 2}))), ("c updated in place; tonumpy(c)", "C02 C19 C11", lambda F: _bump(F.c, lambda c: numpy.array(numpoly.tonumpy(c)))),
    ("x updated in place; attributes", "C03", lambda F: _bump(F.x, lambda p: (p.exponents, [numpy.array(c) for c in p.coefficients], p.names, p.keys))),
    ("x updated in place; x < y", "C07", lambda F: _bump(F.x, lambda x: x < F.y)), ("x updated in place; x == y", "C07 C17", lambda F: _bump(F.x, lambda x: x == F.y)),
    ("x updated in place; derivative", "C06", lambda F: _bump(F.x, lambda x: numpoly.derivative(x, F.n0))), ("m updated in place; sum(m, 0)", "C10 C08", lambda F: _bump(F.m, lambda m: numpoly.sum(m, axis=0))),
    ("x updated in place; str(x)", "C16", lambda F: _bump(F.x, str)), ("x updated in place; lead_coefficient", "C19", lambda F: _bump(F.x, lambda x: numpy.array(numpoly.lead_coefficient(x)))),
    ("x updated in place; pickle", "C13", lambda F: _bump(F.x, lambda x: pickle.loads(pickle.dumps(x)))), ("x updated in place; align_polynomials(x, y)", "C04 C17", lambda F: _bump(F.x, lambda x: [q.copy() for q in numpoly.align_polynomials(x, F.y)])),
    ("c updated in place; floor(c / 2)", "C11", lambda F: _bump(F.c, lambda c: numpoly.floor(c / 2))), ("x updated in place; x.astype(float)", "C12", lambda F: _bump(F.x, lambda x: x.astype(float))),
    ("x updated in place; tile(x, 2)", "C09", lambda F: _bump(F.x, lambda x: numpoly.tile(x, 2))), ("x updated in place; x[::-1].copy()", "C09", lambda F: _bump(F.x, lambda x: x[::-1].copy())),
    ("x updated in place; savetxt", "C13 C20", lambda F: _bump(F.x, _text)), ("x updated in place; sortable_proxy", "C19 C18", lambda F: _bump(F.x, lambda x: numpy.array(numpoly.sortable_proxy(x)))),
    ("call(s, (4,), kw)", "C02 C17", lambda F: numpoly.call(F.s, (4,), F.kw)), ("call(s, (5,), kw)", "C02", lambda F: numpoly.call(F.s, (5,), F.kw)), ("call(s, kwargs=kw)", "C02", lambda F: numpoly.call(F.s, kwargs=F.kw)),
    ("x updated in place; x * 1", "C14 C15", lambda F: _bump(F.x, lambda x: x * 1)),
]
FUNCS = FUNCS + UPDATES


ENV = ("environment after the history", "ALL", lambda F: _env())


def entries():
    out = []
    for fi, (label, pids, fn) in enumerate(FUNCS):
        for v in VARIANTS:
            out.append({"f": fi, "label": label, "v": v, "pids": pids.split(), "fn": fn})
    return out


# calls whose result may legitimately be (a view of) an argument: numpy hands out views for them, or they are
# conversions that pass an argument through when there is nothing to convert.  Every other call of the menu computes new
# data, and a result that shares memory with an argument would let a caller who writes to the one change the other.
MAY_SHARE = {"+x", "aspolynomial(x)", "aspolynomial(x, names)", "aspolynomial(raw)", "polynomial(x)", "attributes of x", "align_polynomials(x, y[:1])",
             "align_exponents(x, y)", "align_indeterminants(x, d)", "align_shape(x, s)", "align_dtype(x, cf)", "align_polynomials(x, raw, 2.5)", "reshape(m, -1)",
             "transpose(m)", "moveaxis(m, 0, 1)", "expand_dims(x, 0)", "atleast_1d(s)", "atleast_2d(x)", "atleast_3d(x, s)", "array_split(x, 2)", "split(tile(x, 2), 2)",
             "x[::-1]", "m[:, 1]", "m.T", "diagonal(m)", "diag(x)", "broadcast_arrays(x, s)", "m.ravel()", "x[1]", "m[0]", "list(m)", "set_dimensions(x, 3)",
             "set_dimensions(x, 1)", "x()", "numpy.diagonal(m)", "remove_redundant_names(d * 1)", "clean_attributes(x - x + y)", "x[raw > 0]"}


def _arrays(o, depth=0):
    if isinstance(o, numpy.ndarray):
        return [numpy.ndarray.view(o, numpy.ndarray)]
    if isinstance(o, (list, tuple)) and depth < 4:
        return [r for x in o for r in _arrays(x, depth + 1)]
    if isinstance(o, dict) and depth < 4:
        return [r for x in o.values() for r in _arrays(x, depth + 1)]
    return []


def _aliases(res, F):
    args = [r for k in F._touched for r in _arrays(F._built.get(k))]
    return any(numpy.shares_memory(a, b) for a in _arrays(res) for b in args)


def _safe(o):
    """keys of huge exponents are code units beyond the Unicode range: not picklable as text"""
    if isinstance(o, tuple):
        return tuple(_safe(x) for x in o)
    if isinstance(o, str) and not o.isascii():
        return ascii(o)
    return o


ALIASED = []


def observe(entry, scrib, keep=None, shared=None):
    ctx = CTX.get(entry["v"])
    try:
        with (numpoly.global_options(**ctx) if ctx else contextlib.nullcontext()):
            if shared is None:
                F = Fix(entry["v"])
            else:          # the caller passes the same objects to one call after the other
                F = shared.get(entry["v"]) or shared.setdefault(entry["v"], Fix(entry["v"]))
                F._touched = set()
            res = entry["fn"](F)
            ob = ("ok", _safe(snap([res, F.args()])))
            if entry["label"] not in MAY_SHARE and _aliases(res, F):
                ALIASED.append(entry["label"] + " [" + entry["v"] + " inputs]")
        if scrib:
            scribble(res)
        elif keep is not None:
            keep.append((res, ob[1][1]))
    except Exception as err:  # noqa: BLE001
        ob = ("exc", type(err).__name__)
        if keep is not None and not scrib:
            keep.append(None)
    return ob


def _observe_env():
    try:
        return ("ok", _safe(snap(_env())))
    except Exception as err:  # noqa: BLE001
        return ("exc", type(err).__name__)


def run_child(E, seq, timeout=40.0, persistent=False):
    """seq: list of (entry index | -1 for the environment, scrib) -> list of observations, or None (no result in time)"""
    r, w = os.pipe()
    pid = os.fork()
    if pid == 0:
        os.close(r)
        out = []
        kept = []
        shared = {} if persistent else None
        try:
            for idx, scrib in seq:
                out.append(_observe_env() if idx < 0 else observe(E[idx], scrib, None if persistent else kept, shared))
            # results the caller kept: a later call must not have changed them
            later = []
            pos = [k for k, (idx, scrib) in enumerate(seq) if idx >= 0 and not scrib]
            for k, item in zip(pos, kept):
                if item is not None and _safe(snap(item[0])) != item[1]:
                    later.append(k)
            out.append(("kept-results-changed", later, sorted(set(ALIASED))))
        except BaseException as err:  # noqa: BLE001
            out.append(("child-error", repr(err)[:200]))
        try:
            with os.fdopen(w, "wb") as f:
                pickle.dump(out, f)
        finally:
            os._exit(0)
    os.close(w)
    buf = []
    end = time.time() + timeout
    ok = True
    while True:
        left = end - time.time()
        if left <= 0:
            ok = False
            break
        rd, _, _ = select.select([r], [], [], left)
        if not rd:
            ok = False
            break
        chunk = os.read(r, 1 << 16)
        if not chunk:
            break
        buf.append(chunk)
    os.close(r)
    if not ok:
        try:
            os.kill(pid, signal.SIGKILL)
        except OSError:
            pass
    os.waitpid(pid, 0)
    if not ok:
        return None
    try:
        return pickle.loads(b"".join(buf))
    except Exception:  # noqa: BLE001
        return None


def _explain(ref, got):
    if ref[0] != got[0]:
        return f"first call: {ref[0]} {ref[1] if ref[0] != 'ok' else ''}; after the history: {got[0]} {got[1] if got[0] != 'ok' else ''}"
    if ref[0] == "exc":
        return f"first call raises {ref[1]}, after the history {got[1]}"
    a, b = ref[1], got[1]
    try:
        if a[1] != b[1]:
            return "result differs: " + describe_change(a[1], b[1])
        return "arguments after the call differ: " + describe_change(a[2], b[2])
    except Exception:  # noqa: BLE001
        return "observation differs"


def _cycles(m):
    """index sequences over range(m) such that every ordered pair (i, j), i != j, is adjacent in one of them"""
    out = []
    for d in range(1, m):
        seen = set()
        for start in range(m):
            if start in seen:
                continue
            cyc, i = [], start
            while i not in seen:
                seen.add(i)
                cyc.append(i)
                i = (i + d) % m
            out.append(cyc + [start])
    return out


def plan(E, pid, mode, lo, hi, tier):
    """-> list of histories; a history is a list of (entry index, overwrite the result afterwards?); EVERY call of a
    history is compared with its first-call reference"""
    mine = [i for i, e in enumerate(E) if pid in e["pids"]]
    byf = {}
    for i in mine:
        byf.setdefault(E[i]["f"], []).append(i)
    hs = []
    if mode == "sib":     # one function: every ordered pair of input variants adjacent, results kept / overwritten
        for f in sorted(byf)[lo:hi]:
            sib = byf[f]
            if tier == "quick":      # economy of the quick tier: 11 of the 13 variants, 7 for the functions that take 20-40 ms a call
                keep = QUICK_SLOW_VARIANTS if _slow(E[sib[0]]["label"]) else QUICK_VARIANTS
                sib = [i for i in sib if E[i]["v"] in keep]
            hs.append([(a, s) for a in sib for s in (0, 1, 0)])      # the same call three times
            for cyc in _cycles(len(sib)):
                for scrib in (0, 1):      # results kept (and looked at again at the end) / overwritten by the caller
                    hs.append([(sib[i], scrib) for i in cyc])
            if tier == "thorough" and not _slow(E[sib[0]]["label"]):    # every ordered triple as a history of its own
                for a in sib:
                    for a2 in sib:
                        for b in sib:
                            if a != a2 and a2 != b:
                                hs.append([(a, 1), (a2, 0), (b, 0)])
    elif mode == "same":   # the caller passes the SAME argument objects to one call after the other (no result is written to)
        for v in (("base", "retain_names") if tier == "quick" else VARIANTS):
            own = [i for i in mine if E[i]["v"] == v]
            # every ordered pair of the property's calls adjacent in some history (a memo that remembers only the latest
            # call by the identity of its arguments is hit by the very next call or not at all)
            for cyc in _cycles(len(own))[lo:hi]:
                hs.append([(own[i], 0) for i in cyc])
    else:                  # every menu entry (of any function family) as a one-call prefix of this property's calls
        keep_v = VARIANTS if tier == "thorough" else QUICK_PREFIX_VARIANTS
        keep_b = THOROUGH_OBSERVED_VARIANTS if tier == "thorough" else ("base",)
        allA = [i for i, e in enumerate(E) if e["v"] in keep_v]
        bs = [i for i in mine if E[i]["v"] in keep_b]
        for n, a in enumerate(allA[lo:hi]):
            k = (7 * (lo + n)) % max(1, len(bs))
            rot = bs[k:] + bs[:k]
            if pid not in E[a]["pids"]:
                # a prefix from another function family: a window that moves with the prefix (every call follows many
                # prefixes); a prefix of this property's own functions is followed by all of them
                # window of six (thorough: twelve) cost units, a 20-40 ms function counting three
                w, cost = [], 0
                for b in rot:
                    cost += 3 if _slow(E[b]["label"]) else 1
                    w.append(b)
                    if cost >= QUICK_WINDOW * (1 if tier == "quick" else 2):
                        break
                rot = w
            for scrib in ((1,) if tier == "quick" else (0, 1)):
                hs.append([(a, scrib)] + [(b, 1 if tier == "quick" else 1 - scrib) for b in rot])
    return hs


def zygote(req):
    E = entries()
    if "mode" in req:
        hs = plan(E, req["pid"], req["mode"], req["lo"], req["hi"], req["tier"])
    else:   # replay of one recorded history
        idx = {(e["label"], e["v"]): i for i, e in enumerate(E)}
        hs = [[(idx[(l, v)], s) for l, v, s in req["hist"]] + [(idx[tuple(req["b"])], 0)]]
    ref = {}
    out = {"tr": 0, "forks": 0, "fails": [], "histories": 0, "obs": set(), "ref_exc": 0, "calls": 0}

    def reference(b):
        if b not in ref:
            ref[b] = run_child(E, [(b, 0), (-1, 0)])
            out["forks"] += 1
        return ref[b]

    def name(i, s):
        return [E[i]["label"], E[i]["v"], s]
    reported = set()
    for seq in hs:
        out["histories"] += 1
        got = run_child(E, list(seq) + [(-1, 0)], persistent=req.get("mode") == "same" or bool(req.get("same")))
        out["forks"] += 1
        out["calls"] += len(seq)
        if got is None or len(got) != len(seq) + 2:
            out["fails"].append({"op": E[seq[-1][0]]["label"], "kind": "hang", "detail": f"history {[name(i, s) for i, s in seq][:6]}...: no result",
                                 "hist": [name(i, s) for i, s in seq[:-1]], "b": name(*seq[-1])[:2]})
            continue
        envref = None
        bad = False
        for k, (b, _) in enumerate(seq):
            r = reference(b)
            if r is None or len(r) != 3:
                continue
            if envref is None:
                envref = r[1]
            out["tr"] += 1
            o = got[k]
            out["obs"].add(int(hashlib.sha1(pickle.dumps(o)).hexdigest()[:12], 16))
            if r[0][0] == "exc":
                out["ref_exc"] += 1
            if o != r[0]:
                bad = True
                if len(reported) > 12 or out["forks"] > 4000:
                    continue
                hist = [name(i, s) for i, s in seq[:k]]
                for one in seq[:k]:          # shrink: is one predecessor enough?
                    g1 = run_child(E, [one, (b, 0)], persistent=req.get("mode") == "same" or bool(req.get("same")))
                    out["forks"] += 1
                    if g1 is not None and len(g1) == 3 and g1[1] != r[0]:
                        hist = [name(*one)]
                        o = g1[1]
                        break
                sig = (E[b]["label"], tuple(h[0] for h in hist))
                if sig in reported or len(reported) > 12:
                    continue
                reported.add(sig)
                out["fails"].append({"op": E[b]["label"], "kind": "history-dependent",
                                     "detail": f"{E[b]['label']} [{E[b]['v']} inputs] after {[(h[0], h[1]) + (('result overwritten',) if h[2] else ()) for h in hist]}: {_explain(r[0], o)}",
                                     "hist": hist, "b": [E[b]["label"], E[b]["v"]], "same": req.get("mode") == "same" or bool(req.get("same"))})
        if not bad and envref is not None and got[-2] != envref and not any(f["kind"] == "environment" for f in out["fails"]):
            out["fails"].append({"op": "environment", "kind": "environment",
                                 "detail": f"after {[name(i, s)[:2] for i, s in seq][:8]} the options / numpy settings differ from those after one call: {_explain(envref, got[-2])}",
                                 "hist": [name(i, s) for i, s in seq[:-1]], "b": name(*seq[-1])[:2]})
        if got[-1][0] == "kept-results-changed" and got[-1][1]:
            k = got[-1][1][0]
            sig = ("kept", E[seq[k][0]]["label"])
            if sig not in reported:
                reported.add(sig)
                out["fails"].append({"op": E[seq[k][0]]["label"], "kind": "earlier-result-changed",
                                     "detail": f"the result of {name(*seq[k])[:2]} (kept by the caller, not written to) no longer has its bytes after the later calls {[name(i, s)[:2] for i, s in seq[k + 1:]][:6]}",
                                     "hist": [name(i, s) for i, s in seq[:-1]], "b": name(*seq[-1])[:2]})
        if got[-1][0] == "kept-results-changed" and got[-1][2]:
            for lab in got[-1][2]:
                sig = ("alias", lab.split(" [")[0])
                if sig not in reported:
                    reported.add(sig)
                    b = next(i for i, _ in seq if E[i]["label"] == lab.split(" [")[0])
                    out["fails"].append({"op": lab.split(" [")[0], "kind": "result-aliases-argument",
                                         "detail": f"{lab}: the result shares memory with an argument of the call (it is computed data, not a view): writing to the one changes the other",
                                         "hist": [], "b": [E[b]["label"], E[b]["v"]]})
        if got[-1][0] == "child-error":
            out["fails"].append({"op": E[seq[-1][0]]["label"], "kind": "hang", "detail": f"history {[name(i, s)[:2] for i, s in seq][:6]}: {got[-1][1]}",
                                 "hist": [name(i, s) for i, s in seq[:-1]], "b": name(*seq[-1])[:2]})
    out["obs"] = sorted(out["obs"])[:4000]
    return out


def sizes(pid, tier):
    E = entries()
    mine = [i for i, e in enumerate(E) if pid in e["pids"]]
    nf = len({E[i]["f"] for i in mine})
    keep_v = VARIANTS if tier == "thorough" else QUICK_PREFIX_VARIANTS
    na = len([1 for e in E if e["v"] in keep_v])
    return nf, na


def case_list(pid, tier):
    nf, na = sizes(pid, tier)
    out = []
    step = 1
    for lo in range(0, nf, step):
        out.append({"k": "history", "mode": "sib", "lo": lo, "hi": min(nf, lo + step), "tier": tier})
    # cross mode: chunks of about equal estimated cost (a prefix of the property's own family is followed by all its calls)
    E = entries()
    keep_v = VARIANTS if tier == "thorough" else QUICK_PREFIX_VARIANTS
    allA = [i for i, e in enumerate(E) if e["v"] in keep_v]
    own_cost = sum(3 if _slow(e["label"]) else 1 for e in E if pid in e["pids"] and e["v"] == "base")
    lo, acc = 0, 0
    for n, a in enumerate(allA):
        acc += own_cost * (1 if tier == "quick" else 8) if pid in E[a]["pids"] else QUICK_WINDOW * (1 if tier == "quick" else 4)
        if acc >= (240 if tier == "quick" else 2400) or n == len(allA) - 1:
            out.append({"k": "history", "mode": "cross", "lo": lo, "hi": n + 1, "tier": tier})
            lo, acc = n + 1, 0
    nown = len([1 for e in E if pid in e["pids"] and e["v"] == "base"])
    ncyc = len(_cycles(nown))
    step = max(1, ncyc // 12)
    for lo in range(0, ncyc, step):
        out.append({"k": "history", "mode": "same", "lo": lo, "hi": min(ncyc, lo + step), "tier": tier})
    return out


def run(R, pid, case):
    """one history case: a pristine interpreter (the zygote) that forks one child per history"""
    req = {"pid": pid, "tier": case.get("tier", "quick")}
    req.update({k: case[k] for k in ("mode", "lo", "hi", "hist", "b", "same") if k in case})
    env = dict(os.environ, PYTHONHASHSEED="0", VERIF_REPO=tree.REPO)
    env.pop("NUMPOLY_DEBUG", None)
    here = os.path.dirname(os.path.dirname(os.path.abspath(__file__)))
    try:
        r = subprocess.run([sys.executable, "-m", "mc.history", json.dumps(req)], capture_output=True, text=True, timeout=900, env=env, cwd=here)
    except subprocess.TimeoutExpired:
        R.fail("history", "hang", "the history explorer did not finish in 900 s", tags=["hang", "history"])
        return
    lines = [ln for ln in r.stdout.splitlines() if ln.startswith("{")]
    if r.returncode != 0 or not lines:
        # the pristine interpreter could not even import / lay out the menu: the tree is broken for a first call
        R.fail("history", "unexpected-exception", f"history explorer failed (exit {r.returncode}): {(r.stderr or r.stdout)[-500:]}", tags=["history"])
        return
    out = json.loads(lines[-1])
    R.tr(out["tr"])
    R.stat("history_forked_processes", out["forks"])
    R.stat("call_histories", out["histories"])
    R.stat("history_reference_is_exception", out["ref_exc"])
    R.stat("history_calls", out["calls"])
    for o in out["obs"]:
        R.outcome(o)
        R.state(o)
    for f in out["fails"]:
        R.fail(f["op"], f["kind"], ("[the same argument objects passed to every call] " if f.get("same") else "") + f["detail"], tags=["history"],
               sub={"k": "history", "hist": f["hist"], "b": f["b"], "same": bool(f.get("same"))})


if __name__ == "__main__":
    try:
        import sympy  # noqa: F401  (imported here so that the children need not; importing is not a library call)
    except Exception:  # noqa: BLE001
        pass
    res = zygote(json.loads(sys.argv[1]))
    print(json.dumps(res))
