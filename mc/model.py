"""Exact reference model, independent of numpoly.

`V` is a polynomial *array*: a dict  monomial -> coefficient array  (numpy array of the model's
shape).  A monomial is a frozenset of (name, exponent>0) pairs, so the value is independent of
which names, term order, zero terms or storage keys an implementation uses.  Coefficient arrays
are numpy *object* arrays of Python int / Fraction / complex (exact), or - for the packed
all-pairs enumerations - native int64/float64 arrays over dyadic values of bounded magnitude
(exact as well, and fast).  Because coefficient arrays are ordinary numpy arrays, numpy itself is
the reference for broadcasting and for every structural / linear function (`V.map`).
"""
from fractions import Fraction
import itertools
import re

import numpy

ONE = frozenset()


def exact_scalar(x):
    """numpy/Python number -> Python int | Fraction | complex (exact)."""
    if isinstance(x, (bool, numpy.bool_)):
        return int(x)
    if isinstance(x, (int, numpy.integer)):
        return int(x)
    if isinstance(x, (float, numpy.floating)):
        x = float(x)
        if x != x or x in (float("inf"), float("-inf")):
            return x
        f = Fraction(x)
        return int(f) if f.denominator == 1 else f
    if isinstance(x, (complex, numpy.complexfloating)):
        x = complex(x)
        if x.imag == 0:
            return exact_scalar(x.real)
        return x
    if isinstance(x, Fraction):
        return int(x) if x.denominator == 1 else x
    raise TypeError(f"not a number: {x!r}")


def exact_array(a):
    """Any numeric array-like -> object array of exact scalars, same shape."""
    a = numpy.asarray(a)
    if a.dtype == object:
        flat = [exact_scalar(x) for x in a.ravel().tolist()]
    else:
        flat = [exact_scalar(x) for x in a.ravel().tolist()]
    out = numpy.empty(a.size, dtype=object)
    for i, x in enumerate(flat):
        out[i] = x
    return out.reshape(a.shape)


def _iszero(arr):
    if arr.dtype == object:
        return all(x == 0 for x in arr.ravel().tolist())
    return not arr.any()


def mono(**kw):
    return frozenset((n, int(e)) for n, e in kw.items() if e)


def mono_mul(m1, m2):
    if not m1:
        return m2
    if not m2:
        return m1
    d = dict(m1)
    for n, e in m2:
        d[n] = d.get(n, 0) + e
    return frozenset(d.items())


def name_index(name):
    m = re.search(r"(\d+)$", name)
    return int(m.group(1)) if m else 0


def mono_key(m, graded=True, reverse=False, names=None):
    """Sort key of a monomial under the (graded) (reverse) lexicographic order.

    Convention of the library (numpy.lexsort over the exponent rows): without `reverse` the
    LAST indeterminate (largest numeric suffix) is the most significant, with `reverse` the
    first one is.  `graded` puts the total degree in front.
    """
    if names is None:
        names = sorted({n for n, _ in m}, key=name_index)
    d = dict(m)
    exps = [d.get(n, 0) for n in names]
    if not reverse:
        exps = exps[::-1]
    key = tuple(exps)
    if graded:
        key = (sum(exps),) + key
    return key


class V:
    """Polynomial array in the model."""

    __slots__ = ("t", "shape")

    def __init__(self, terms, shape):
        self.shape = tuple(shape)
        t = {}
        for m, c in terms.items():
            c = numpy.asarray(c)
            if c.shape != self.shape:
                c = numpy.broadcast_to(c, self.shape)
            if not _iszero(c):
                t[m] = c
        self.t = t

    # ---- constructors -------------------------------------------------------------------
    @staticmethod
    def const(c, exact=True):
        c = exact_array(c) if exact else numpy.asarray(c)
        return V({ONE: c}, c.shape)

    @staticmethod
    def var(name, shape=()):
        one = numpy.empty(shape, dtype=object)
        one[...] = 1
        return V({frozenset({(name, 1)}): one}, shape)

    @staticmethod
    def lift(x, exact=True):
        return x if isinstance(x, V) else V.const(x, exact)

    # ---- arithmetic ---------------------------------------------------------------------
    def _bshape(self, o):
        return numpy.broadcast_shapes(self.shape, o.shape)

    def __add__(self, o):
        o = V.lift(o)
        shape = self._bshape(o)
        t = {m: numpy.broadcast_to(c, shape) for m, c in self.t.items()}
        for m, c in o.t.items():
            t[m] = t[m] + c if m in t else numpy.broadcast_to(c, shape)
        return V(t, shape)

    __radd__ = __add__

    def __neg__(self):
        return V({m: -c for m, c in self.t.items()}, self.shape)

    def __sub__(self, o):
        return self + (-V.lift(o))

    def __rsub__(self, o):
        return V.lift(o) - self

    def __mul__(self, o):
        o = V.lift(o)
        shape = self._bshape(o)
        t = {}
        for m1, c1 in self.t.items():
            for m2, c2 in o.t.items():
                m = mono_mul(m1, m2)
                c = c1 * c2
                t[m] = t[m] + c if m in t else numpy.broadcast_to(c, shape)
        return V(t, shape)

    __rmul__ = __mul__

    def __pow__(self, n):
        if isinstance(n, (int, numpy.integer)):
            n = int(n)
            assert n >= 0
            if len(self.t) == 1 and n > 3:
                # a single monomial: multiply the exponents, raise the coefficient (x**65535 in one step)
                (m, c), = self.t.items()
                return V({frozenset((name, e * n) for name, e in m): c ** n}, self.shape)
            r = V.const(numpy.ones(self.shape, dtype=object))
            for _ in range(n):
                r = r * self
            return r
        # element-wise array exponent
        n = numpy.asarray(n)
        shape = numpy.broadcast_shapes(self.shape, n.shape)
        nb = numpy.broadcast_to(n, shape)
        out = V({}, shape)
        base = V({m: numpy.broadcast_to(c, shape) for m, c in self.t.items()}, shape)
        for k in sorted(set(int(x) for x in nb.ravel().tolist())):
            mask = numpy.empty(shape, dtype=object)
            mask[...] = 0
            mask[nb == k] = 1
            out = out + (base ** k) * V.const(mask)
        return out

    def scale_div(self, c):
        """divide every coefficient by the exact scalar c"""
        c = Fraction(c) if not isinstance(c, complex) else c
        return V({m: exact_array(a * (1 / c) if isinstance(c, complex) else a * Fraction(1, 1) / c)
                  for m, a in self.t.items()}, self.shape)

    # ---- calculus / evaluation ----------------------------------------------------------
    def diff(self, name):
        t = {}
        for m, c in self.t.items():
            d = dict(m)
            e = d.get(name, 0)
            if not e:
                continue
            if e == 1:
                del d[name]
            else:
                d[name] = e - 1
            m2 = frozenset(d.items())
            t[m2] = t[m2] + c * e if m2 in t else c * e
        return V(t, self.shape)

    def subs(self, assign):
        """assign: dict name -> V | number/array.  Result shape = self.shape + broadcast(arg shapes)."""
        vals = {n: V.lift(v) for n, v in assign.items()}
        ashape = numpy.broadcast_shapes(*[v.shape for v in vals.values()]) if vals else ()
        shape = self.shape + ashape
        out = V({}, shape)
        for m, c in self.t.items():
            cc = c.reshape(self.shape + (1,) * len(ashape))
            term = V({ONE: numpy.broadcast_to(cc, shape)}, shape)
            rest = []
            for n, e in m:
                if n in vals:
                    term = term * (vals[n] ** e)
                else:
                    rest.append((n, e))
            if rest:
                term = term * V({frozenset(rest): numpy.broadcast_to(
                    numpy.array(1, dtype=object), shape)}, shape)
            out = out + term
        return out

    # ---- structure ----------------------------------------------------------------------
    def map(self, fn):
        """Apply a numpy structural/linear function to every coefficient array (and to the zero
        array, to learn the shape when no term is left)."""
        z = numpy.empty(self.shape, dtype=object)
        z[...] = 0
        rz = fn(z)
        if isinstance(rz, (list, tuple)):
            outs = [dict() for _ in rz]
            for m, c in self.t.items():
                for o, r in zip(outs, fn(c)):
                    o[m] = r
            return [V(o, numpy.shape(r)) for o, r in zip(outs, rz)]
        return V({m: fn(c) for m, c in self.t.items()}, numpy.shape(rz))

    def __getitem__(self, idx):
        return self.map(lambda c: c[idx])

    def names(self):
        return sorted({n for m in self.t for n, _ in m}, key=name_index)

    def monomials(self):
        return set(self.t)

    def isconstant(self):
        return all(m == ONE for m in self.t)

    def degree(self):
        return max((sum(e for _, e in m) for m in self.t), default=0)

    def element(self, idx):
        """dict monomial -> exact scalar for one element"""
        out = {}
        for m, c in self.t.items():
            x = exact_scalar(c[idx])
            if x != 0:
                out[m] = x
        return out

    def elements(self):
        """object array of frozenset(items) per element - hashable element values"""
        out = numpy.empty(self.shape, dtype=object)
        for idx in numpy.ndindex(*self.shape):
            out[idx] = frozenset(self.element(idx).items())
        return out

    @staticmethod
    def from_elements(arr):
        """inverse of elements(): object array of frozenset(items) / dict -> V"""
        arr = numpy.asarray(arr, dtype=object) if not isinstance(arr, numpy.ndarray) else arr
        monos = set()
        for idx in numpy.ndindex(*arr.shape):
            monos.update(dict(arr[idx]).keys())
        t = {}
        for m in monos:
            c = numpy.empty(arr.shape, dtype=object)
            for idx in numpy.ndindex(*arr.shape):
                c[idx] = dict(arr[idx]).get(m, 0)
            t[m] = c
        return V(t, arr.shape)

    # ---- comparison ---------------------------------------------------------------------
    def __eq__(self, o):
        if not isinstance(o, V):
            o = V.lift(o)
        if self.shape != o.shape:
            return False
        for m in set(self.t) | set(o.t):
            a, b = self.t.get(m), o.t.get(m)
            if a is None or b is None:
                return False  # zero arrays are never stored
            eq = a == b
            if not (eq.all() if isinstance(eq, numpy.ndarray) else bool(eq)):
                return False
        return True

    def __ne__(self, o):
        return not self == o

    def close(self, o, rtol=1e-9, atol=1e-9):
        if self.shape != o.shape:
            return False
        for m in set(self.t) | set(o.t):
            a = self.t.get(m)
            b = o.t.get(m)
            a = numpy.zeros(self.shape) if a is None else a.astype(complex)
            b = numpy.zeros(self.shape) if b is None else b.astype(complex)
            if not numpy.allclose(a, b, rtol=rtol, atol=atol):
                return False
        return True

    def key(self):
        return (self.shape, tuple(sorted(
            (tuple(sorted(m)), tuple(exact_scalar(x) if not isinstance(x, (int, Fraction, complex)) else x
                                     for x in c.ravel().tolist()))
            for m, c in self.t.items())))

    def __hash__(self):
        return hash(self.key())

    def __repr__(self):
        if not self.t:
            return f"V(0, shape={self.shape})"
        parts = []
        for m, c in sorted(self.t.items(), key=lambda mc: mono_key(mc[0])):
            ms = "*".join(f"{n}^{e}" if e > 1 else n for n, e in sorted(m, key=lambda ne: name_index(ne[0]))) or "1"
            cs = str(c.tolist()) if self.shape else str(c.item() if hasattr(c, "item") else c)
            parts.append(f"{cs}*{ms}")
        return "V(" + " + ".join(parts) + f", shape={self.shape})"


def fmt_element(el):
    """human readable text of an element dict / frozenset(items)"""
    el = dict(el)
    if not el:
        return "0"
    parts = []
    for m, c in sorted(el.items(), key=lambda mc: mono_key(mc[0])):
        ms = "*".join(f"{n}**{e}" if e > 1 else n for n, e in sorted(m, key=lambda ne: name_index(ne[0])))
        parts.append(f"({c})" + ("*" + ms if ms else ""))
    return "+".join(parts)


# ---- reference order (C07, C16, C19) ------------------------------------------------------
def lead(el, names, graded=True, reverse=False):
    """leading (monomial, coefficient) of an element dict under the selected order; None if zero"""
    el = dict(el)
    if not el:
        return None
    m = max(el, key=lambda mm: mono_key(mm, graded, reverse, names))
    return m, el[m]


def compare(e1, e2, names, graded=True, reverse=False):
    """sign of (e1 - e2) at the largest monomial where they differ; 0 if identical"""
    e1, e2 = dict(e1), dict(e2)
    diff = [m for m in set(e1) | set(e2) if e1.get(m, 0) != e2.get(m, 0)]
    if not diff:
        return 0
    m = max(diff, key=lambda mm: mono_key(mm, graded, reverse, names))
    a, b = e1.get(m, 0), e2.get(m, 0)
    return -1 if a < b else 1


def selfcheck():
    """Exhaustive sanity check of the model on a tiny universe (ring axioms, Leibniz, evaluation
    homomorphism) and agreement with sympy on + * diff subs when sympy is importable."""
    x, y = V.var("q0"), V.var("q1")
    atoms = [V.const(0), V.const(1), V.const(-2), x, y, x * y, x + 1, y * y - x, V.const(Fraction(1, 2)) * x]
    n = 0
    for a, b in itertools.product(atoms, repeat=2):
        assert a + b == b + a and a * b == b * a
        assert (a * b).diff("q0") == a.diff("q0") * b + a * b.diff("q0")
        assert (a - b) + b == a
        ev = {"q0": 2, "q1": -3}
        assert (a * b).subs(ev) == a.subs(ev) * b.subs(ev)
        assert (a + b).subs(ev) == a.subs(ev) + b.subs(ev)
        n += 5
        for c in atoms[:6]:
            assert (a + b) * c == a * c + b * c and (a * b) * c == a * (b * c)
            n += 2
    try:
        import sympy
        sx, sy = sympy.symbols("q0 q1")

        def to_sym(v):
            out = 0
            for m, c in v.element(()).items():
                term = sympy.Rational(Fraction(c).numerator, Fraction(c).denominator)
                for nme, e in m:
                    term = term * {"q0": sx, "q1": sy}[nme] ** e
                out = out + term
            return sympy.expand(out)
        for a, b in itertools.product(atoms, repeat=2):
            assert sympy.expand(to_sym(a) * to_sym(b) - to_sym(a * b)) == 0
            assert sympy.expand(to_sym(a) + to_sym(b) - to_sym(a + b)) == 0
            assert sympy.expand(sympy.diff(to_sym(a * b), sx) - to_sym((a * b).diff("q0"))) == 0
            assert sympy.expand(to_sym(a * b).subs({sx: 2}) - to_sym((a * b).subs({"q0": 2}))) == 0
            n += 4
    except ImportError:
        pass
    return n
