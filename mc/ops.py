"""Expression trees evaluated twice: on the real library and in the reference model.

node :=  {"p": spec}                      polynomial built by the trusted builder
       | {"a": nested list, "d": dtype}   numpy.ndarray
       | {"l": nested list}               (nested) Python list
       | {"s": number}                    Python scalar        ({"c": [re, im]} for complex)
       | {"ns": number, "d": dtype}       numpy scalar
       | {"op": name, "x": [nodes], ...}  operation
"""
import operator

import numpy

from . import tree  # noqa: F401
import numpoly

from .alpha import build_checked, model_of, dec_num
from .model import V, exact_array


def _declist(x):
    if isinstance(x, list):
        return [_declist(y) for y in x]
    return dec_num(x)


def leaf_impl(node):
    if "p" in node:
        return build_checked(node["p"])
    if "a" in node:
        x = numpy.array(_declist(node["a"]), dtype=node.get("d"))
        lay = node.get("o")
        if lay == "F":
            x = numpy.asfortranarray(x)
        elif lay == "rev" and x.ndim:
            idx = (slice(None, None, -1),) * x.ndim
            x = numpy.ascontiguousarray(x[idx])[idx]     # same values, negative strides
        elif lay == "ro":
            x.setflags(write=False)
        elif lay == "T" and x.ndim >= 2:
            x = numpy.ascontiguousarray(x.T).T
        return x
    if "l" in node:
        return _declist(node["l"])
    if "s" in node:
        return dec_num(node["s"])
    if "ns" in node:
        return numpy.dtype(node["d"]).type(dec_num(node["ns"]))
    raise KeyError(node)


def leaf_model(node):
    if "p" in node:
        return model_of(node["p"])
    if "a" in node:
        return V.const(numpy.array(_declist(node["a"]), dtype=node.get("d")))
    if "l" in node:
        return V.const(numpy.array(_declist(node["l"])))
    if "s" in node:
        return V.const(dec_num(node["s"]))
    if "ns" in node:
        return V.const(numpy.dtype(node["d"]).type(dec_num(node["ns"])))
    raise KeyError(node)


IMPL = {
    "add": operator.add, "sub": operator.sub, "mul": operator.mul, "neg": operator.neg, "pos": operator.pos,
    "pow": operator.pow,
    "np.add": lambda a, b: numpy.add(a, b), "np.subtract": lambda a, b: numpy.subtract(a, b),
    "np.multiply": lambda a, b: numpy.multiply(a, b), "np.negative": lambda a: numpy.negative(a),
    "np.positive": lambda a: numpy.positive(a), "np.square": lambda a: numpy.square(a),
    "np.power": lambda a, b: numpy.power(a, b),
    "nl.add": lambda a, b: numpoly.add(a, b), "nl.subtract": lambda a, b: numpoly.subtract(a, b),
    "nl.multiply": lambda a, b: numpoly.multiply(a, b), "nl.negative": lambda a: numpoly.negative(a),
    "nl.positive": lambda a: numpoly.positive(a), "nl.square": lambda a: numpoly.square(a),
    "nl.power": lambda a, b: numpoly.power(a, b),
}


def _mpow(a, b):
    if isinstance(b, V):
        assert b.isconstant()
        e = b.t.get(frozenset())
        if e is None:
            e = numpy.zeros(b.shape, dtype=int)
        e = numpy.array([int(x) for x in e.ravel().tolist()], dtype=int).reshape(e.shape)
        if e.shape == ():
            return a ** int(e)
        return a ** e
    return a ** b


MODEL = {
    "add": operator.add, "sub": operator.sub, "mul": operator.mul, "neg": operator.neg, "pos": lambda a: a,
    "pow": _mpow, "square": lambda a: a * a,
}


def model_name(op):
    base = op.split(".")[-1]
    return {"subtract": "sub", "multiply": "mul", "negative": "neg", "positive": "pos", "power": "pow"}.get(base, base)


def eval_impl(node, cache=None):
    """cache: optional dict keyed by id(node) for sub-expressions that are shared Python objects
    (the program search re-uses the state expressions); only operands are cached, never the root"""
    if "op" not in node:
        if cache is not None:
            if id(node) not in cache:
                cache[id(node)] = (node, leaf_impl(node))
            return cache[id(node)][1]
        return leaf_impl(node)
    args = []
    for x in node["x"]:
        if cache is not None and "op" in x:
            if id(x) not in cache:
                cache[id(x)] = (x, eval_impl(x, cache))
            args.append(cache[id(x)][1])
        else:
            args.append(eval_impl(x, cache))
    return IMPL[node["op"]](*args)


def eval_model(node):
    if "op" not in node:
        return leaf_model(node)
    args = [eval_model(x) for x in node["x"]]
    return MODEL[model_name(node["op"])](*args)


def has_poly(node):
    if "op" in node:
        return any(has_poly(x) for x in node["x"])
    return "p" in node
