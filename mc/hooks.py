"""Harness-side instrumentation (no source changes in /repo).

poison: every freshly allocated polynomial buffer (ndpoly.__new__) and every numpy.empty / empty_like result that
numpoly code obtains through the `numpy` module attribute is filled with a fixed byte, so an unwritten coefficient
is deterministic and a result that depends on uninitialised memory differs between two fill bytes."""
import numpy

from . import tree  # noqa: F401
import numpoly

STATE = {"byte": None, "activations": 0, "installed": False}


def _fill(arr):
    b = STATE["byte"]
    if b is None:
        return
    try:
        raw = numpy.ndarray.view(arr, numpy.ndarray) if isinstance(arr, numpy.ndarray) else arr
        if raw.dtype == object or raw.size == 0:
            return
        flat = raw.ravel(order="K")
        if flat.base is None and flat is not raw and not numpy.shares_memory(flat, raw):
            return  # not contiguous in any order: cannot be a fresh allocation
        flat.view(numpy.uint8)[...] = b
        STATE["activations"] += 1
    except Exception:  # noqa: BLE001
        pass


def install():
    if STATE["installed"]:
        return
    cls = numpoly.ndpoly
    orig_new = cls.__new__

    def new(klass, *a, **k):
        obj = orig_new(klass, *a, **k)
        _fill(obj)
        return obj
    cls.__new__ = staticmethod(new)
    orig_empty, orig_empty_like = numpy.empty, numpy.empty_like

    def empty(*a, **k):
        out = orig_empty(*a, **k)
        _fill(out)
        return out

    def empty_like(*a, **k):
        out = orig_empty_like(*a, **k)
        _fill(out)
        return out
    numpy.empty = empty
    numpy.empty_like = empty_like
    STATE["installed"] = True


def poison(byte):
    """set the fill byte (None switches poisoning off)"""
    install()
    STATE["byte"] = byte
