"""Input alphabets and universes (all ordered simplest-first)."""
import itertools

import numpy

from .alpha import spec, enc_num

NAMESETS = [("q0",), ("q1",), ("q0", "q1"), ("q0", "q2"), ("q1", "q2"), ("q2", "q10"),
            ("q0", "q1", "q2"), ("q0", "q1", "q2", "q10"), ("q3", "q7", "q11"), ("q0", "q1", "q2", "q3", "q4", "q5"), ("q1", "q0")]

SHAPES = [(), (1,), (2,), (3,), (1, 1), (1, 2), (2, 1), (2, 2), (2, 3), (3, 1), (1, 1, 1), (1, 2, 1),
          (2, 1, 2), (2, 2, 2), (1, 1, 3), (2, 1, 3)]

INT_COEF = [1, -1, 2, -3]
FLOAT_COEF = [0.5, -1.5, 2.0, 0.25]
CPLX_COEF = [1j, -1 + 2j, 0.5 - 0.5j]

DTYPES13 = ["?", "i1", "i2", "i4", "i8", "u1", "u2", "u4", "u8", "f2", "f4", "f8", "c8", "c16"]


def monomials(nvars, maxdeg):
    """all exponent tuples of total degree <= maxdeg, graded order"""
    out = [e for e in itertools.product(range(maxdeg + 1), repeat=nvars) if sum(e) <= maxdeg]
    out.sort(key=lambda e: (sum(e), e))
    return out


def universe(names, maxdeg, maxterms, coefs):
    """all 0-d polynomials over `names` with <= maxterms terms of degree <= maxdeg and coefficients
    from coefs, as lists of (exps, coef) terms; the zero polynomial first"""
    monos = monomials(len(names), maxdeg)
    out = [[]]
    for k in range(1, maxterms + 1):
        for ms in itertools.combinations(monos, k):
            for cs in itertools.product(coefs, repeat=k):
                out.append(list(zip(ms, cs)))
    return out


def U0():
    return universe(("q0", "q1"), 2, 2, [1, -1, 2])


def U0minus():
    return universe(("q0", "q1"), 2, 2, [1, -1])


def U2():
    return universe(("q0", "q2", "q10"), 2, 2, [1, -2])


def scalar_spec(names, terms, dtype="i8", variant="canon"):
    return spec(names, (), terms, dtype, variant)


def packed_spec(names, terms_list, dtype="i8"):
    """one 1-d polynomial array whose i-th element is terms_list[i]"""
    n = len(terms_list)
    monos = sorted({e for t in terms_list for e, _ in t}, key=lambda e: (sum(e), e))
    cols = {e: [0] * n for e in monos}
    for i, t in enumerate(terms_list):
        for e, c in t:
            cols[e][i] = c
    return spec(names, (n,), [(e, cols[e]) for e in monos], dtype)


def fill(pool, shape, rot=0, stride=1):
    """element list for an array of `shape` taken cyclically from pool"""
    n = int(numpy.prod(shape)) if shape else 1
    return [pool[(rot + stride * i) % len(pool)] for i in range(n)]


def array_spec(names, shape, elements, dtype="i8", variant="canon"):
    """elements: list (C order) of term lists"""
    monos = sorted({tuple(e) for t in elements for e, _ in t}, key=lambda e: (sum(e), e))
    cols = {e: [0] * len(elements) for e in monos}
    for i, t in enumerate(elements):
        for e, c in t:
            cols[tuple(e)][i] = c
    return spec(names, shape, [(e, cols[e]) for e in monos], dtype, variant)


def broadcastable_pairs(shapes):
    out = []
    for a in shapes:
        for b in shapes:
            try:
                numpy.broadcast_shapes(a, b)
            except ValueError:
                continue
            out.append((a, b))
    return out


def seed_slice(items, seed, tier, mod=8):
    """quick: the residue class of `seed` (mod 8) of a thorough-only list; thorough: everything"""
    if tier == "thorough":
        return list(items)
    return [x for i, x in enumerate(items) if i % mod == seed % mod]


def twin_sequence():
    """Inputs that collide under incomplete cache keys, to be processed one after the other in ONE process:
    exponent tables with the same flattened bytes but a different (terms x indeterminates) layout, the same table
    under different names, the same table and names with different coefficients.  (A result computed from state
    left behind by an earlier call shows up as a disagreement with the model on a later one.)"""
    tables = [
        (("q0", "q1"), [(1, 2)]), (("q0",), [(1,), (2,)]), (("q1", "q2"), [(1, 2)]), (("q0", "q1"), [(1, 2)]),
        (("q0", "q1", "q2"), [(0, 0, 0), (1, 1, 0)]), (("q0", "q1"), [(0, 0), (0, 1), (1, 0)]), (("q2", "q10"), [(0, 0), (0, 1), (1, 0)]),
        (("q0", "q1", "q2"), [(0, 0, 0), (1, 1, 0)]), (("q0", "q1"), [(0, 1), (2, 3)]), (("q0",), [(0,), (1,), (2,), (3,)]),
        (("q0", "q1", "q2", "q10"), [(0, 1, 2, 3)]), (("q0", "q1"), [(0, 1), (2, 3)]), (("q1", "q0"), [(0, 1), (2, 3)]),
        (("q0", "q1"), [(0, 0), (1, 0), (0, 1), (1, 1)]), (("q0", "q1", "q2", "q10"), [(0, 0, 1, 0), (0, 1, 1, 1)]),
    ]
    out = []
    for k, (names, rows) in enumerate(tables):
        for variant in range(2):
            coefs = [((-1) ** (i + variant)) * (i + 1 + 2 * variant) for i in range(len(rows))]
            out.append(spec(names, (), list(zip(rows, coefs))))
        out.append(spec(names, (2,), [(r, [i + 1, -(i + 2) if i % 2 else 0]) for i, r in enumerate(rows)]))
    return out + out[::-1]


def wide_specs():
    """Polynomials with MANY indeterminates and/or LARGE exponents (regimes where packed integer codes of exponent rows,
    flat multi-indices, narrow scratch dtypes and the like overflow): 9 names at power 255, 17 at power 15, 12 at power 50,
    40 linear (numpy cannot hold structured field names that differ only beyond 64 characters), 5 at power 65535, and 3 names with exponents around 1000 .. 70000."""
    out = []

    def names(k):
        return tuple(f"q{i}" for i in range(k))

    def unit(k, i, e):
        return tuple(e if j == i else 0 for j in range(k))
    for k, e, label in ((9, 255, "9 names ^255"), (17, 15, "17 names ^15"), (12, 50, "12 names ^50"), (40, 1, "40 names linear"), (5, 65535, "5 names ^65535")):
        terms = [(unit(k, i, e), (i % 3) + 1) for i in range(k)] + [((0,) * k, -2)]
        out.append((label, spec(names(k), (), terms)))
        # a second polynomial in the same regime that differs only in trailing columns / coefficients
        terms2 = [(unit(k, i, e), ((i + 1) % 4) - 1) for i in range(k - 1, -1, -2)] + [(unit(k, k - 1, e - 1 if e > 1 else 2), 5)]
        out.append((label + " b", spec(names(k), (), terms2)))
    n3 = ("q0", "q1", "q2")
    fam = [[((0, 0, 1700), 1)], [((0, 1000, 700), 1)], [((70000, 0, 0), 1)], [((1626, 1626, 1626), 2), ((0, 0, 1), -1)],
           [((0, 0, 1700), 1), ((0, 1000, 700), -1)], [((65536, 1, 0), 1), ((65535, 2, 0), 1)], [((1, 0, 0), 1), ((0, 0, 0), 1)]]
    for i, t in enumerate(fam):
        out.append((f"3 names big exponents {i}", spec(n3, (), t)))
    out.append(("other names big", spec(("q1", "q3"), (), [((300, 0), 1), ((0, 256), -1)])))
    out.append(("small other names", spec(("q2", "q70"), (), [((1, 1), 1), ((0, 0), 1)])))
    return out


def magnitude_specs():
    """float polynomials whose coefficients span many orders of magnitude (a term of size 1e-9 or 1e-300 is still a term)"""
    n2 = ("q0", "q1")
    out = []
    for tiny in (1e-9, 2.5e-9, 1e-30, 1e-300, 5e-324):
        out.append(spec(n2, (), [((1, 0), tiny)], "f8"))
        out.append(spec(n2, (), [((1, 0), tiny), ((0, 0), 1.0)], "f8"))
        out.append(spec(n2, (2,), [((1, 1), [tiny, 0.0]), ((1, 0), [0.0, tiny]), ((0, 0), [0.0, 1.0])], "f8"))
        out.append(spec(n2, (), [((0, 2), -tiny), ((1, 0), 1e300)], "f8"))
    out.append(spec(n2, (), [((1, 0), 1e300), ((0, 1), -1e300)], "f8"))
    out.append(spec(n2, (), [((0, 0), 1e-12)], "f8"))
    out.append(spec(n2, (), [((0, 0), 1e-12 + 1e-12j), ((1, 0), 1e-20j)], "c16"))
    return out


def wide_array_specs():
    """shape-(2,) arrays whose two elements are a wide polynomial and its companion (see wide_specs)"""
    ws = wide_specs()
    out = []
    for (la, a), (lb, b) in zip(ws[0:10:2], ws[1:10:2]):
        rows = sorted({tuple(e) for e, _ in a["t"]} | {tuple(e) for e, _ in b["t"]})
        da = {tuple(e): dec for e, dec in ((e, c[0]) for e, c in a["t"])}
        db = {tuple(e): dec for e, dec in ((e, c[0]) for e, c in b["t"])}
        out.append((la + " array", {"n": a["n"], "s": [2], "d": "i8", "t": [[list(e), [da.get(e, 0), db.get(e, 0)]] for e in rows], "v": "canon"}))
    n3 = ("q0", "q1", "q2")
    out.append(("3 names big exponents array", spec(n3, (2,), [((0, 0, 1700), [1, 0]), ((0, 1000, 700), [-1, 2]), ((70000, 0, 0), [0, 1]), ((0, 0, 0), [3, 0])])))
    return out


def dense_specs():
    """Polynomials with MANY terms (70 .. 231), many of them of equal total degree: every monomial up to a degree, with
    coefficient masks that move the leading term around.  Regimes where sorting kernels stop being insertion sorts,
    text headers grow beyond any fixed buffer, and per-term loops run long.
    -> list of (label, spec)"""
    out = []
    for names, deg, exact in ((("q0", "q1"), 20, False), (("q0", "q1", "q2"), 8, False), (("q0", "q1", "q2", "q3"), 5, False),
                              (("q1", "q2", "q10"), 10, True), (("q0", "q1"), 69, True)):
        mons = [m for m in monomials(len(names), deg) if not exact or sum(m) == deg]
        n = len(mons)
        # 0-d, every coefficient non-zero
        out.append((f"{len(names)} names deg{'=' if exact else '<='}{deg} all {n} terms", spec(names, (), [(m, (i % 7) - 3 or 4) for i, m in enumerate(mons)])))
        # shape (5,): element j keeps the terms i with (3*i + j) % 5 != 0 and (i*i + j) % 3 != 0
        terms = []
        for i, m in enumerate(mons):
            col = [((i + j) % 5 + 1) * (1 if (i + j) % 2 else -1) if (3 * i + j) % 5 and (i * i + j) % 3 else 0 for j in range(5)]
            if any(col):
                terms.append((m, col))
        out.append((f"{len(names)} names deg{'=' if exact else '<='}{deg} masked (5,)", spec(names, (5,), terms)))
        # the array of all the monomials themselves, in a scrambled order
        order = sorted(range(n), key=lambda i: ((i * 7919) % 104729, i))
        terms = [(mons[i], [1 if j == pos else 0 for j in range(n)]) for pos, i in enumerate(order)]
        out.append((f"{len(names)} names deg{'=' if exact else '<='}{deg} the {n} monomials as an array", spec(names, (n,), terms)))
    return out


INF = float("inf")


def nonfinite_universe(names=("q0", "q1")):
    """every polynomial with at most 2 terms over the monomials of degree <= 1 (and q0**2) with coefficients from
    {inf, -inf, 1.0, 2.0}: infinite coefficients are floats like any other (equal infinities compare equal, a term with
    an infinite coefficient is a term).  nan is left out: it is not equal to itself, so no order or equality is defined."""
    return universe(names, 1, 2, [INF, -INF, 1.0, 2.0]) + [[((2,) + (0,) * (len(names) - 1), INF), ((0,) * len(names), 1.0)]]


def nonfinite_specs():
    """a few float / complex polynomials and arrays with infinite coefficients -> list of specs"""
    n2 = ("q0", "q1")
    out = [
        spec(n2, (), [((1, 0), INF), ((0, 0), 2.0)], "f8"), spec(n2, (), [((1, 0), INF), ((0, 0), 1.0)], "f8"),
        spec(n2, (), [((1, 1), -INF), ((2, 0), 1.0), ((0, 0), 3.0)], "f8"),
        spec(n2, (2,), [((0, 1), [INF, 1.0]), ((1, 0), [2.0, -INF]), ((0, 0), [0.0, 1.0])], "f8"),
        spec(n2, (2,), [((1, 1), [INF, 0.0]), ((2, 0), [1.0, 2.0])], "f8"),
        spec(("q1", "q2"), (), [((1, 1), INF), ((0, 0), -1.0)], "f8"),
        spec(n2, (), [((0, 0), INF)], "f8"),
    ]
    return out


def long_array_specs():
    """arrays with MANY elements along an axis (65 .. 130): regimes where blocked / chunked algorithms leave a remainder"""
    n2 = ("q0", "q1")
    pool = [[((1, 0), 1)], [((0, 1), 2), ((0, 0), -1)], [((0, 0), 3)], [((1, 1), 1)], [], [((2, 0), -1), ((0, 0), 1)], [((0, 1), 1)]]
    out = []
    for shape in ((65,), (67,), (130,), (2, 67), (67, 2), (65, 1), (1, 66)):
        for rot in (0, 3):
            out.append((f"long {shape} rot{rot}", array_spec(n2, shape, fill(pool, shape, rot, 1 if rot == 0 else 2))))
    return out
