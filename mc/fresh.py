"""Run a short script against the tree under test in a FRESH interpreter (nothing imported, nothing called before):
the way to decide properties of the first call of something stateful.  The script prints one JSON document."""
import json
import os
import subprocess
import sys

from . import tree

PRELUDE = """
import sys, json, warnings
warnings.filterwarnings("ignore")
sys.path.insert(0, {repo!r})
import numpy, numpoly
assert numpoly.__file__.startswith({repo!r}), numpoly.__file__
"""


def run_fresh(body, timeout=120):
    """-> ("ok", parsed json of the last output line) | ("error", text)"""
    code = PRELUDE.format(repo=tree.REPO) + body
    env = dict(os.environ, PYTHONHASHSEED="0")
    env.pop("NUMPOLY_DEBUG", None)
    try:
        r = subprocess.run([sys.executable, "-c", code], capture_output=True, text=True, timeout=timeout, env=env, cwd="/")
    except subprocess.TimeoutExpired:
        return "error", f"no result after {timeout}s"
    if r.returncode != 0:
        return "error", (r.stderr or r.stdout)[-600:]
    lines = [ln for ln in r.stdout.splitlines() if ln.strip()]
    try:
        return "ok", json.loads(lines[-1])
    except Exception as err:  # noqa: BLE001
        return "error", f"unreadable output ({err}): {r.stdout[-300:]}"
