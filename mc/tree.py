"""Bind the checker to the numpoly tree under test ($VERIF_REPO, default /repo).

Importing this module puts the tree first on sys.path, imports numpoly from it and
asserts that the imported package really lives there, so every check explores the
*current working tree*, edited or not.  Nothing is ever written into the tree.
"""
import os
import sys
import logging
import warnings

REPO = os.path.realpath(os.environ.get("VERIF_REPO", "/repo"))
os.environ.setdefault("NUMPOLY_VERIF", "1")  # harness-side switch only (no in-source hooks)
os.environ.pop("NUMPOLY_DEBUG", None)

if sys.path[0] != REPO:
    sys.path.insert(0, REPO)

assumptions = []


def _stale_extensions():
    out = []
    cdir = os.path.join(REPO, "numpoly", "cfunctions")
    try:
        names = os.listdir(cdir)
    except OSError:
        return out
    for n in names:
        if n.endswith(".pyx"):
            stem = n[:-4]
            sos = [x for x in names if x.startswith(stem + ".") and x.endswith(".so")]
            if not sos:
                out.append(f"{stem}: no compiled extension found")
                continue
            so_m = max(os.path.getmtime(os.path.join(cdir, s)) for s in sos)
            if os.path.getmtime(os.path.join(cdir, n)) > so_m + 1:
                out.append(f"{stem}.pyx newer than its compiled extension (no Cython in image)")
    return out


warnings.filterwarnings("ignore")
import numpy  # noqa: E402
import numpoly  # noqa: E402

_where = os.path.realpath(os.path.dirname(os.path.dirname(numpoly.__file__)))
if _where != REPO:
    sys.stderr.write(f"HARNESS ERROR: numpoly imported from {_where}, expected {REPO}\n")
    sys.exit(2)

logging.getLogger("numpoly").setLevel(logging.ERROR)
logging.getLogger("numpoly.baseclass").setLevel(logging.ERROR)

stale = _stale_extensions()
if stale:
    assumptions.append("stale_extension: " + "; ".join(stale))

# the shipped defaults, captured once at import (C14 captures them in a fresh subprocess too)
DEFAULTS = dict(numpoly.get_options(defaults=True))


def reset_options():
    """Force the global option dict back to the shipped defaults (public API only)."""
    if numpoly.get_options() != DEFAULTS:
        numpoly.set_options(**DEFAULTS)


def options_leaked():
    return numpoly.get_options() != DEFAULTS


def config():
    return {
        "repo": REPO,
        "python": sys.version.split()[0],
        "numpy": numpy.__version__,
        "cpu_features_disabled": os.environ.get("NPY_DISABLE_CPU_FEATURES", ""),
    }
