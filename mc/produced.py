"""Depth-2 exploration across function families: polynomial arrays PRODUCED by public functions (in whatever
representation those legitimately return: extra zero terms, unused names, views, 0-stride broadcasts, other dtypes,
unsorted name sets) are fed to the CONSUMERS of each property.  The model value of a produced object is read off with
alpha() after the object was found well-formed; the producers themselves are judged by their own properties."""
import io
import pickle

import numpy

from . import tree  # noqa: F401
import numpoly

from .alpha import alpha, alpha_raw, build_checked, model_of, spec, wellformed
from .model import V, lead, name_index, exact_array
from .snap import snap, describe_change


def _tagged(shape, base=0, names=("q0", "q1"), dtype="i8", variant="canon"):
    from .props.C09 import tagged
    return tagged(shape, base, names, dtype, variant)


def producers():
    """-> list of (label, make); make() -> a freshly produced ndpoly"""
    a = lambda: build_checked(_tagged((3,)))                      # noqa: E731
    b = lambda: build_checked(_tagged((2, 2), 10, ("q1", "q2")))  # noqa: E731
    s = lambda: build_checked(spec(("q0", "q1"), (), [((2, 1), 3), ((0, 1), -1), ((0, 0), 2)]))   # noqa: E731
    f = lambda: build_checked(spec(("q0", "q2"), (3,), [((1, 0), [0.5, -1.5, 2.0]), ((0, 2), [1.0, 0.0, -0.25])], "f8"))  # noqa: E731
    q = numpoly.variable(3)
    out = [
        ("derivative(a, q0)", lambda: numpoly.derivative(a(), "q0")), ("derivative(s, q1, q1)", lambda: numpoly.derivative(s(), "q1", "q1")),
        ("gradient(s)", lambda: numpoly.gradient(s())), ("hessian(s)", lambda: numpoly.hessian(s())),
        ("a - a", lambda: a() - a()), ("a * 0", lambda: a() * 0), ("(a + w) - w", lambda: (a() + build_checked(_tagged((3,), 40, ("q1", "q2")))) - build_checked(_tagged((3,), 40, ("q1", "q2")))),
        ("align_polynomials(a, b[0])[0]", lambda: numpoly.align_polynomials(a(), b()[0, :1])[0]),
        ("align_exponents(a, f)[0]", lambda: numpoly.align_exponents(a(), f())[0]), ("align_indeterminants(s, b)[0]", lambda: numpoly.align_indeterminants(s(), b())[0]),
        ("set_dimensions(a, 4)", lambda: numpoly.set_dimensions(a(), 4)), ("set_dimensions(a, 1)", lambda: numpoly.set_dimensions(a(), 1)),
        ("decompose(a)", lambda: numpoly.decompose(a())), ("where(mask, a, 0)", lambda: numpoly.where(numpy.array([True, False, True]), a(), 0)),
        ("maximum(a, a[::-1])", lambda: numpoly.maximum(a(), a()[::-1])), ("a[::-1]", lambda: a()[::-1]), ("b.T", lambda: b().T),
        ("transpose(b)", lambda: numpoly.transpose(b())), ("b.reshape(4)", lambda: b().reshape(4)), ("diagonal(b)", lambda: numpoly.diagonal(b())),
        ("a[[2, 0]]", lambda: a()[[2, 0]]), ("b[:, 1]", lambda: b()[:, 1]), ("expand_dims(a, 0)", lambda: numpoly.expand_dims(a(), 0)),
        ("broadcast_arrays(a, b[:, :1])[0]", lambda: numpoly.broadcast_arrays(s(), a())[0]), ("atleast_2d(s)", lambda: numpoly.atleast_2d(s())),
        ("a.astype(float)", lambda: a().astype(float)), ("a.astype(int8)", lambda: a().astype("i1")), ("b.copy(order=F)", lambda: b().copy(order="F")),
        ("a(q0=q1)", lambda: a()(q0=q[1])), ("s(2)", lambda: numpoly.polynomial(s()(2))), ("s(q1=q0)", lambda: s()(q1=q[0])),
        ("from_attributes retained", lambda: numpoly.polynomial_from_attributes([(0, 0, 0), (1, 0, 0), (0, 0, 2), (0, 3, 0)], [[1, 2], [0, 0], [3, 0], [0, 0]], ("q0", "q1", "q2"),
                                                                             retain_coefficients=True, retain_names=True)),
        ("poly_divmod(s, q0+1)[0]", lambda: numpoly.poly_divmod(s(), q[0] + 1)[0]), ("poly_divmod(s, q0+1)[1]", lambda: numpoly.poly_divmod(s(), q[0] + 1)[1]),
        ("sum(b, 0, keepdims)", lambda: numpoly.sum(b(), axis=0, keepdims=True)), ("cumsum(a)", lambda: numpoly.cumsum(a())), ("outer(a, a)", lambda: numpoly.outer(a(), a())),
        ("concatenate([a, w])", lambda: numpoly.concatenate([a(), build_checked(_tagged((3,), 40, ("q1", "q2")))])), ("stack([s, s*2])", lambda: numpoly.stack([s(), s() * 2])),
        ("pickle(a)", lambda: pickle.loads(pickle.dumps(a()))), ("loadtxt(savetxt(b))", lambda: _text(b())),
        ("monomial(3, dimensions=2)", lambda: numpoly.monomial(3, dimensions=2)), ("variable(3)[1]", lambda: numpoly.variable(3)[1]),
        ("symbols('q1 q3')[0]", lambda: numpoly.symbols("q1 q3")[0]), ("polynomial([s, 1])", lambda: numpoly.polynomial([s(), 1])),
        ("a ** 2", lambda: a() ** 2), ("f * f", lambda: f() * f()), ("repeat(a, 2)", lambda: numpoly.repeat(a(), 2, axis=0)), ("tile(a, 2)", lambda: numpoly.tile(a(), 2)),
        ("full_like(a, s)", lambda: numpoly.full_like(a(), s())), ("choose([1, 0], [a[:2], a[1:]])", lambda: numpoly.choose([1, 0], [a()[:2], a()[1:]])),
        ("unsorted names", lambda: numpoly.polynomial_from_attributes([(1, 2), (0, 1)], [1, 3], ("q10", "q2"))),
    ]
    return out


def _text(p):
    fobj = io.StringIO()
    numpoly.savetxt(fobj, p)
    fobj.seek(0)
    return numpoly.loadtxt(fobj)


def produce(R, label, make):
    """-> (object, model) or None; a producer that fails or returns something ill-formed is skipped here (and counted):
    it is judged by its own property"""
    try:
        x = make()
    except Exception:  # noqa: BLE001
        R.stat("producer_failed")
        return None
    if not isinstance(x, numpoly.ndpoly) or wellformed(x):
        R.stat("producer_not_wellformed")
        return None
    return x, alpha(x)


def judge_value(R, op, label, f, expected, tags, close=False):
    R.tr()
    try:
        got = f()
    except Exception as err:  # noqa: BLE001
        R.fail(op, "exception", f"{label}: {type(err).__name__}: {str(err)[:200]}", tags=tags)
        return None
    if not isinstance(got, numpoly.ndpoly):
        got = numpoly.polynomial(got) if isinstance(got, (numpy.ndarray, numpy.generic, int, float, complex)) else got
    if not isinstance(got, numpoly.ndpoly):
        R.fail(op, "wrong-value", f"{label}: result type {type(got).__name__}", tags=tags)
        return None
    w = wellformed(got)
    if w:
        R.fail(op, "wrong-value", f"{label}: ill-formed result {w}", tags=tags)
        return None
    a_ = alpha(got)
    ok = a_.close(expected, 1e-12, 1e-12) if close else a_ == expected
    if tuple(got.shape) != expected.shape or not ok:
        R.fail(op, "wrong-value", f"{label}: got {a_!r} expected {expected!r}"[:500], tags=tags)
        return None
    R.outcome((op, label))
    return got


def _partner(items, i, x):
    """another produced object whose shape broadcasts with x's (deterministic choice)"""
    n = len(items)
    for d in range(1, n):
        j = (i + 7 * d) % n
        yield j


def run(R, pid, i0, i1):
    """the consumers of property `pid` on the produced objects i0..i1"""
    from .model import compare
    items = producers()
    for i in range(i0, min(i1, len(items))):
        label, make = items[i]
        got = produce(R, label, make)
        if got is None:
            continue
        x, m = got
        names = tuple(x.names)
        tags = ["produced", "producer=" + label.split("(")[0]]
        R.state((pid, "produced", label))
        before = snap(x)
        lab = f"on the result of {label}"
        # a partner operand: the next produced object with a broadcastable shape
        y = my = None
        for j in _partner(items, i, x):
            g2 = produce(R, items[j][0], items[j][1])
            if g2 is None:
                continue
            try:
                numpy.broadcast_shapes(x.shape, g2[0].shape)
            except ValueError:
                continue
            if len(m.t) * len(g2[1].t) <= 400:
                y, my, ylab = g2[0], g2[1], items[j][0]
                break
        if pid == "C01":
            judge_value(R, "add", f"x + x {lab}", lambda: x + x, m + m, tags)
            judge_value(R, "mul", f"x * 2 - x {lab}", lambda: x * 2 - x, m, tags)
            judge_value(R, "neg", f"-x {lab}", lambda: -x, m * V.const(-1), tags)
            if len(m.t) <= 12:
                judge_value(R, "mul", f"x * x {lab}", lambda: x * x, m * m, tags)
                judge_value(R, "pow", f"x ** 2 {lab}", lambda: x ** 2, m * m, tags)
            if y is not None:
                judge_value(R, "add", f"x + y {lab}, y = {ylab}", lambda: x + y, m + my, tags)
                judge_value(R, "sub", f"y - x {lab}, y = {ylab}", lambda: y - x, my - m, tags)
                judge_value(R, "mul", f"x * y {lab}, y = {ylab}", lambda: x * y, m * my, tags)
        elif pid == "C02":
            vals = [2, -1, 3, 1, -2, 2, 1, 3, -1, 2, 1, 1, 1]
            assign = {n: V.const(vals[k % len(vals)]) for k, n in enumerate(names)}
            full = m.subs(assign)
            judge_value(R, "call", f"x(*values) {lab}", lambda: x(*[vals[k % len(vals)] for k in range(len(names))]), full, tags)
            judge_value(R, "call", f"x(**values) {lab}", lambda: x(**{n: vals[k % len(vals)] for k, n in enumerate(names)}), full, tags)
            judge_value(R, "call", f"x({names[-1]}=2) {lab}", lambda: x(**{names[-1]: 2}), m.subs({names[-1]: V.const(2)}), tags)
            judge_value(R, "call", f"x(3) {lab}", lambda: x(3), m.subs({names[0]: V.const(3)}), tags)
        elif pid == "C06":
            for n in names:
                judge_value(R, "derivative", f"derivative(x, {n}) {lab}", lambda: numpoly.derivative(x, n), m.diff(n), tags)
            judge_value(R, "derivative", f"derivative(x, 0, -1) {lab}", lambda: numpoly.derivative(x, 0, -1), m.diff(names[0]).diff(names[-1]), tags)
            R.tr()
            try:
                g = numpoly.gradient(x)
                if tuple(g.shape) != (len(names),) + tuple(x.shape):
                    R.fail("gradient", "wrong-value", f"gradient {lab}: shape {g.shape}", tags=tags)
                else:
                    for k, n in enumerate(names):
                        if alpha(g[k]) != m.diff(n):
                            R.fail("gradient", "wrong-value", f"gradient {lab}: component {k} is not d/d{n}", tags=tags)
                            break
            except Exception as err:  # noqa: BLE001
                R.fail("gradient", "exception", f"gradient {lab}: {type(err).__name__}: {err}", tags=tags)
        elif pid == "C07":
            els = m.elements()
            for opname, opf, want in (("eq", lambda u, v: u == v, True), ("ne", lambda u, v: u != v, False), ("lt", lambda u, v: u < v, False), ("ge", lambda u, v: u >= v, True)):
                R.tr()
                try:
                    r = numpy.asarray(opf(x, x))
                    if r.shape != tuple(x.shape) or not (r == want).all():
                        R.fail(opname, "wrong-value", f"x {opname} x {lab}: {r.tolist()}", tags=tags)
                except Exception as err:  # noqa: BLE001
                    R.fail(opname, "exception", f"x {opname} x {lab}: {type(err).__name__}: {err}", tags=tags)
            if y is not None and not any(isinstance(c, complex) for v_ in (m, my) for col in v_.t.values() for c in col.ravel().tolist()):
                shape = numpy.broadcast_shapes(x.shape, y.shape)
                ex = numpy.broadcast_to(els, shape)
                ey = numpy.broadcast_to(my.elements(), shape)
                allnames = sorted(set(names) | set(y.names), key=name_index)
                S = numpy.zeros(shape, dtype=int)
                for idx in numpy.ndindex(*shape):
                    S[idx] = compare(dict(ex[idx]), dict(ey[idx]), allnames, True, False)
                for opname, opf, pred in (("lt", lambda u, v: u < v, S < 0), ("le", lambda u, v: u <= v, S <= 0), ("gt", lambda u, v: u > v, S > 0), ("eq", lambda u, v: u == v, S == 0)):
                    R.tr()
                    try:
                        r = numpy.asarray(opf(x, y))
                        if r.shape != pred.shape or not (r == pred).all():
                            R.fail(opname, "wrong-value", f"x {opname} y {lab}, y = {ylab}: {r.tolist()} expected {pred.tolist()}"[:400], tags=tags)
                    except Exception as err:  # noqa: BLE001
                        R.fail(opname, "exception", f"x {opname} y {lab}, y = {ylab}: {type(err).__name__}: {err}", tags=tags)
        elif pid == "C09":
            judge_value(R, "reshape", f"reshape(x, -1) {lab}", lambda: numpoly.reshape(x, -1), m.map(lambda c: c.reshape(-1)), tags)
            judge_value(R, "transpose", f"x.T {lab}", lambda: x.T, m.map(lambda c: c.T), tags)
            judge_value(R, "concatenate", f"concatenate([x1, x1]) {lab}", lambda: numpoly.concatenate([numpoly.atleast_1d(x), numpoly.atleast_1d(x)]),
                        m.map(lambda c: numpy.concatenate([numpy.atleast_1d(c), numpy.atleast_1d(c)])), tags)
            judge_value(R, "stack", f"stack([x, x], -1) {lab}", lambda: numpoly.stack([x, x], axis=-1), m.map(lambda c: numpy.stack([c, c], axis=-1)), tags)
            if x.ndim:
                judge_value(R, "getitem", f"x[::-1] {lab}", lambda: x[::-1], m.map(lambda c: c[::-1]), tags)
                judge_value(R, "getitem", f"x[-1] {lab}", lambda: x[-1], m.map(lambda c: c[-1]), tags)
                judge_value(R, "repeat", f"repeat(x, 2, 0) {lab}", lambda: numpoly.repeat(x, 2, axis=0), m.map(lambda c: numpy.repeat(c, 2, axis=0)), tags)
                judge_value(R, "iter", f"polynomial(list(x)) {lab}", lambda: numpoly.polynomial(list(x)), m, tags)
            judge_value(R, "expand_dims", f"expand_dims(x, 0) {lab}", lambda: numpoly.expand_dims(x, 0), m.map(lambda c: c[None]), tags)
        elif pid == "C10":
            judge_value(R, "sum", f"sum(x) {lab}", lambda: numpoly.sum(x), m.map(numpy.sum), tags)
            if x.ndim:
                judge_value(R, "sum", f"sum(x, 0) {lab}", lambda: numpoly.sum(x, axis=0), m.map(lambda c: numpy.sum(c, axis=0)), tags)
                judge_value(R, "sum", f"sum(x, -1, keepdims) {lab}", lambda: numpoly.sum(x, axis=-1, keepdims=True), m.map(lambda c: numpy.sum(c, axis=-1, keepdims=True)), tags)
                judge_value(R, "cumsum", f"cumsum(x, 0) {lab}", lambda: numpoly.cumsum(x, axis=0), m.map(lambda c: numpy.cumsum(c, axis=0)), tags)
                if x.shape[-1] > 1:
                    judge_value(R, "diff", f"diff(x) {lab}", lambda: numpoly.diff(x), m.map(lambda c: numpy.diff(c)), tags)
            if x.ndim == 1 and len(m.t) <= 12:
                from .props.C10 import to_obj, from_obj
                mo = to_obj(m)
                judge_value(R, "inner", f"inner(x, x) {lab}", lambda: numpoly.inner(x, x), from_obj(numpy.inner(mo, mo)), tags)
                judge_value(R, "prod", f"prod(x[:2]) {lab}", lambda: numpoly.prod(x[:2]), from_obj(numpy.prod(mo[:2])), tags)
        elif pid == "C13":
            for label2, f in (("pickle", lambda: pickle.loads(pickle.dumps(x))), ("pickle protocol 0", lambda: pickle.loads(pickle.dumps(x, protocol=0))),
                              ("copy", lambda: x.copy()), ("deepcopy", lambda: __import__("copy").deepcopy(x))):
                z = judge_value(R, label2.split(" ")[0], f"{label2} {lab}", f, m, tags)
                if z is not None and (z.dtype != x.dtype or tuple(z.names) != tuple(x.names)):
                    R.fail(label2.split(" ")[0], "wrong-value", f"{label2} {lab}: dtype/names {z.dtype} {z.names} != {x.dtype} {x.names}", tags=tags)
            if max([0] + [e for mm in m.t for _, e in mm]) < 40 and x.dtype.kind in "if":
                z = judge_value(R, "savetxt/loadtxt", f"text round trip {lab}", lambda: _text(x), m, tags, close=True)
                if z is not None and tuple(z.names) != tuple(x.names):
                    R.fail("savetxt/loadtxt", "wrong-value", f"text round trip {lab}: names {z.names} != {x.names}", tags=tags)
        elif pid == "C16":
            from .props import C16
            if not (x.dtype.kind == "c" and x.ndim):
                for op, f, is_repr in (("str", str, False), ("repr", repr, True)):
                    try:
                        text = f(x)
                    except Exception as err:  # noqa: BLE001
                        R.tr()
                        R.fail(op, "exception", f"{op} {lab}: {type(err).__name__}: {err}", tags=tags)
                        continue
                    C16.check_text(R, op, text, m, (True, False, True), ("**", "*"), tags, f"{op} {lab}", is_repr)
        elif pid == "C19":
            els = [dict(e) for e in m.elements().ravel().tolist()] if x.shape else [dict(m.elements().item())]
            leads = [lead(el, names, False, False) for el in els]
            want_e = numpy.array([[dict(l[0]).get(n, 0) for n in names] if l else [0] * len(names) for l in leads]).reshape(tuple(x.shape) + (len(names),))
            R.tr()
            try:
                ge = numpy.asarray(numpoly.lead_exponent(x))
                if ge.shape != want_e.shape or not numpy.array_equal(ge, want_e):
                    R.fail("lead_exponent", "wrong-value", f"lead_exponent {lab}: {ge.tolist()} != {want_e.tolist()}"[:400], tags=tags)
                gc = numpy.asarray(numpoly.lead_coefficient(x)).ravel().tolist()
                wc = [l[1] if l else 0 for l in leads]
                if len(gc) != len(wc) or any(complex(u) != complex(v) for u, v in zip(gc, wc)):
                    R.fail("lead_coefficient", "wrong-value", f"lead_coefficient {lab}: {gc} != {wc}"[:400], tags=tags)
            except Exception as err:  # noqa: BLE001
                R.fail("lead_exponent", "exception", f"{lab}: {type(err).__name__}: {err}", tags=tags)
            R.tr()
            try:
                dec = numpoly.decompose(x)
                da = alpha(dec)
                total = V({}, tuple(x.shape))
                for k in range(dec.shape[0]):
                    total = total + da.map(lambda c, k=k: c[k])
                if total != m:
                    R.fail("decompose", "wrong-value", f"decompose {lab}: slices sum to {total!r}"[:300], tags=tags)
            except Exception as err:  # noqa: BLE001
                R.fail("decompose", "exception", f"decompose {lab}: {type(err).__name__}: {err}", tags=tags)
            R.tr()
            try:
                d = x.todict()
                t = {}
                for ex_, c in d.items():
                    mm = frozenset((n, int(e)) for n, e in zip(names, ex_) if e)
                    c = exact_array(numpy.asarray(c))
                    t[mm] = t[mm] + c if mm in t else c
                if V(t, tuple(x.shape)) != m:
                    R.fail("todict", "wrong-value", f"todict {lab}: {d}"[:300], tags=tags)
                if bool(numpoly.isconstant(x)) != m.isconstant():
                    R.fail("isconstant", "wrong-value", f"isconstant {lab}", tags=tags)
                pr = numpy.asarray(numpoly.sortable_proxy(x))
                if pr.shape != tuple(x.shape) or sorted(pr.ravel().tolist()) != list(range(x.size)):
                    R.fail("sortable_proxy", "wrong-value", f"sortable_proxy {lab}: {pr.tolist()}", tags=tags)
            except Exception as err:  # noqa: BLE001
                R.fail("todict", "exception", f"{lab}: {type(err).__name__}: {err}", tags=tags)
        else:
            raise KeyError(pid)
        after = snap(x)
        if before != after:
            R.fail("consumer", "argument-modified", f"the produced object was modified by the consumers of {pid} {lab}: {describe_change(before, after)}", tags=tags)


def case_list(chunk=8):
    n = len(producers())
    return [{"k": "produced", "i0": i, "i1": min(n, i + chunk)} for i in range(0, n, chunk)]
