CONSTANT MaxDepth = 3
INIT Init
NEXT Next
INVARIANT TypeOK
INVARIANT Restored
