---------------------------- MODULE Options ----------------------------
(* Model of numpoly's global option machine (numpoly/option.py), property C14.
   cur   : the option values in force, abstracted to <<retain_names, sort_graded(+display_exponent),
           retain_coefficients>>, each 0/1 (1 = shipped default for the first two, 0 for the third)
   stack : snapshots held by the open `with global_options(...)` blocks, innermost last.
   Every edge of the state graph TLC dumps is replayed against the implementation. *)
EXTENDS Naturals, Sequences

CONSTANT MaxDepth

VARIABLES cur, stack

Default == <<1, 1, 0>>

\* the keyword sets of the alphabet: 0 = no change to that component, otherwise the value written + 1
EnterKw == << <<0, 0, 0>>, <<1, 0, 0>>, <<0, 1, 0>> >>   \* {}, {retain_names: False}, {sort_graded: False, display_exponent: "^"}
SetKw   == << <<0, 0, 2>>, <<2, 2, 0>> >>                 \* {retain_coefficients: True}, {retain_names: True, sort_graded: True, display_exponent: "**"}

Apply(c, kw) == [i \in 1..3 |-> IF kw[i] = 0 THEN c[i] ELSE kw[i] - 1]

Init == cur = Default /\ stack = <<>>

Enter(k) == /\ Len(stack) < MaxDepth
            /\ stack' = Append(stack, cur)
            /\ cur' = Apply(cur, EnterKw[k])

\* the manager object is created, then set_options(SetKw[1]) runs, then the block is entered: the snapshot restored
\* on exit is the one at ENTRY (it contains the set_options), not the one at creation
EnterDeferred == /\ Len(stack) < MaxDepth
                 /\ stack' = Append(stack, Apply(cur, SetKw[1]))
                 /\ cur' = Apply(Apply(cur, SetKw[1]), EnterKw[2])

\* a function decorated with global_options(EnterKw[3]); afterwards set_options(SetKw[1]); the function is called twice:
\* inside it the decoration's options are in force on top of the CURRENT ones, after each call the current ones are back
DecoratedCalls == /\ cur' = Apply(cur, SetKw[1])
                  /\ UNCHANGED stack

\* a block entered with an unknown option name: KeyError, nothing changes, no block is opened
EnterBad == /\ Len(stack) < MaxDepth
            /\ UNCHANGED <<cur, stack>>

ExitOk == /\ Len(stack) > 0
          /\ cur' = stack[Len(stack)]
          /\ stack' = SubSeq(stack, 1, Len(stack) - 1)

\* exception raised inside the innermost block and caught just outside it
ExitExc == /\ Len(stack) > 0
           /\ cur' = stack[Len(stack)]
           /\ stack' = SubSeq(stack, 1, Len(stack) - 1)

\* an exception that does not derive from Exception (KeyboardInterrupt, SystemExit, GeneratorExit ...) leaves the block
ExitBase == /\ Len(stack) > 0
            /\ cur' = stack[Len(stack)]
            /\ stack' = SubSeq(stack, 1, Len(stack) - 1)

\* exception raised inside the innermost block and caught outside the two innermost blocks
ExitExc2 == /\ Len(stack) > 1
            /\ cur' = stack[Len(stack) - 1]
            /\ stack' = SubSeq(stack, 1, Len(stack) - 2)

Set(k) == /\ cur' = Apply(cur, SetKw[k])
          /\ UNCHANGED stack

SetBad == UNCHANGED <<cur, stack>>

Mutate == UNCHANGED <<cur, stack>>

Next == \/ \E k \in 1..3 : Enter(k)
        \/ EnterBad
        \/ EnterDeferred
        \/ DecoratedCalls
        \/ ExitOk
        \/ ExitExc
        \/ ExitExc2
        \/ ExitBase
        \/ \E k \in 1..2 : Set(k)
        \/ SetBad
        \/ Mutate

Spec == Init /\ [][Next]_<<cur, stack>>

TypeOK == /\ cur \in [1..3 -> {0, 1}]
          /\ Len(stack) <= MaxDepth

\* leaving every open block (in any way) brings back exactly the options in force at the outermost enter
Restored == Len(stack) = 0 \/ stack[1] \in [1..3 -> {0, 1}]
=========================================================================
