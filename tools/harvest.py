#!/usr/bin/env python3
"""tools/harvest.py <worktree> <A|B> <seed-id> <PROP> [check ids...]
Confirm a seeded defect written by a sub-agent in its scratch worktree (test-suite outcome unchanged,
demo fails with / passes without the patch), run our quick checks against it, and store it under
/verif/seeded/<seed-id>/ (patch.diff, demo.py, notes.md, meta.json)."""
import json, os, re, shutil, subprocess, sys, time
wt, x, sid, prop = sys.argv[1:5]
checks = sys.argv[5:] or [prop]
M = os.path.join(wt, "MUTANT")
patch = os.path.join(M, f"{x}.patch.diff")
demo = os.path.join(M, f"{x}.demo.py")
def sh(cmd, **kw):
    return subprocess.run(cmd, shell=True, capture_output=True, text=True, **kw)
def tests():
    r = sh(f"cd {wt} && /venv/bin/python -m pytest -q -p no:cacheprovider --timeout=900 -q test 2>&1")
    failed = sorted(set(re.findall(r"FAILED (\S+)", r.stdout)))
    return failed, r.stdout[-300:]
def rundemo():
    r = sh(f"cd {wt} && timeout 600 /venv/bin/python {demo}")
    return r.returncode, (r.stdout + r.stderr)[-400:]
sh(f"git -C {wt} checkout -q -- .")
head = sh("git -C /repo rev-parse HEAD").stdout.strip()
sh(f"git -C {wt} checkout -q --detach {head}")
base_demo, _ = rundemo()
a = sh(f"git -C {wt} apply {patch}")
if a.returncode:
    print("patch does not apply", a.stderr); sys.exit(3)
# expected failures = what the unchanged current HEAD gives (cached per HEAD); all of them are in BASELINE always_fail
cache = f"/var/tmp/numpoly-verif-basefail-full-{head}.json"
if os.path.exists(cache):
    expected = json.load(open(cache))
else:
    sh(f"git -C {wt} checkout -q -- .")
    expected, _ = tests()
    json.dump(expected, open(cache, "w"))
    sh(f"git -C {wt} apply {patch}")
failed, tail = tests()
mut_demo, demo_out = rundemo()
results = {}
for cid in checks:
    out = f"/var/tmp/numpoly-verif-mut-{sid}"
    t = time.time()
    r = sh(f"VERIF_REPO={wt} VERIF_OUT={out} /verif/check {cid}")
    nviol = len(re.findall(r"^VIOLATION", r.stdout, re.M))
    first = next((l for l in r.stdout.splitlines() if l.startswith("  ")), "")
    results[cid] = {"exit": r.returncode, "violation_lines": nviol, "first": first.strip()[:300], "wall_s": round(time.time() - t, 1)}
sh(f"git -C {wt} checkout -q -- .")
ok = failed == expected and base_demo == 0 and mut_demo != 0
print(json.dumps({"seed": sid, "tests_failed": failed, "demo_base_exit": base_demo, "demo_mut_exit": mut_demo, "confirmed": ok, "checks": results}, indent=1))
if not ok:
    print("NOT CONFIRMED", tail, demo_out); sys.exit(1)
d = f"/verif/seeded/{sid}"
os.makedirs(d, exist_ok=True)
shutil.copy(patch, f"{d}/patch.diff"); shutil.copy(demo, f"{d}/demo.py")
if os.path.exists(os.path.join(M, f"{x}.notes.md")): shutil.copy(os.path.join(M, f"{x}.notes.md"), f"{d}/notes.md")
meta = {"id": sid, "property": prop, "source": "independent sub-agent given only the property text",
        "needs": open(f"{d}/notes.md").read()[:1500] if os.path.exists(f"{d}/notes.md") else "",
        "repo_head": head, "confirmed": {"pytest_failed_with_patch": failed, "demo_exit_unpatched": base_demo, "demo_exit_patched": mut_demo,
                      "how": "patch applied in a scratch worktree of /repo HEAD; pinned pytest command; demo run with and without"},
        "detected_by": {k: (v["exit"] == 1) for k, v in results.items()}, "check_results": results}
json.dump(meta, open(f"{d}/meta.json", "w"), indent=1)
