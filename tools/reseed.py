#!/usr/bin/env python3
"""tools/reseed.py [seed-id ...] : re-apply every seeded change to a scratch worktree of the current /repo HEAD and
run the quick check(s) of its property against it; refresh seeded/<id>/meta.json (detected_by, check_results)."""
import glob, json, os, re, subprocess, sys, time
def sh(cmd): return subprocess.run(cmd, shell=True, capture_output=True, text=True)
wt = os.environ.get("RESEED_WT", "/tmp/wt/reseed")
if not os.path.isdir(wt):
    print(sh("/verif/tools/mkwt.sh reseed").stdout.strip())
head = sh("git -C /repo rev-parse HEAD").stdout.strip()
sh(f"git -C {wt} checkout -q -- . ; git -C {wt} checkout -q --detach {head}")
ids = sys.argv[1:] or sorted(os.path.basename(d) for d in glob.glob("/verif/seeded/*"))
missed = []
for sid in ids:
    d = f"/verif/seeded/{sid}"
    meta = json.load(open(f"{d}/meta.json"))
    sh(f"git -C {wt} checkout -q -- .")
    a = sh(f"git -C {wt} apply {d}/patch.diff")
    if a.returncode:
        print(sid, "PATCH DOES NOT APPLY to", head[:7]); meta["applies_to_head"] = False
        json.dump(meta, open(f"{d}/meta.json", "w"), indent=1); continue
    checks = list(meta.get("check_results", {})) or [meta["property"]]
    checks += [c for c in meta.get("also_check", []) if c not in checks]
    res = {}
    for cid in checks:
        t = time.time()
        r = sh(f"VERIF_REPO={wt} VERIF_OUT=/var/tmp/numpoly-verif-mut-{os.path.basename(wt)} /verif/check {cid}")
        first = next((l for l in r.stdout.splitlines() if l.startswith("  ")), "")
        res[cid] = {"exit": r.returncode, "violation_lines": len(re.findall(r"^VIOLATION", r.stdout, re.M)), "first": first.strip()[:300], "wall_s": round(time.time() - t, 1)}
    meta.update(check_results=res, detected_by={k: v["exit"] == 1 for k, v in res.items()}, repo_head=head, applies_to_head=True)
    json.dump(meta, open(f"{d}/meta.json", "w"), indent=1)
    ok = any(meta["detected_by"].values())
    if not ok: missed.append(sid)
    print(sid, "DETECTED" if ok else "MISSED", {k: v["exit"] for k, v in res.items()})
sh(f"git -C {wt} checkout -q -- .")
print("missed:", missed)
