#!/bin/sh
# tools/runall.sh [tier] : run every claimed check on /repo, print one line each
tier=${1:-quick}
cd "$(dirname "$0")/.." || exit 2   # the copy of /verif this script belongs to (a vp snapshot runs its own files)
for id in $(python3 -c "import json;print(' '.join(c['property_id'] for c in json.load(open('MANIFEST.json'))['checks']))"); do
  s=$(date +%s)
  out=$(./check $id --tier $tier 2>&1); rc=$?
  e=$(date +%s)
  echo "$id rc=$rc $((e-s))s $(echo "$out" | grep -c '^VIOLATION') violations; $(echo "$out" | grep -c '^KNOWN-FINDING') known; $(echo "$out" | grep "tier=" | sed 's/.*: //')"
done
