#!/bin/sh
# usage: mkwt.sh <name>  -> creates scratch worktree /tmp/wt/<name> of /repo HEAD with compiled kernels copied in
set -e
d=/tmp/wt/$1
mkdir -p /tmp/wt
git -C /repo worktree add --detach -f "$d" HEAD >/dev/null 2>&1
cp /repo/numpoly/cfunctions/*.so /repo/numpoly/cfunctions/*.c "$d/numpoly/cfunctions/"
echo "$d"
