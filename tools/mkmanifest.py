#!/usr/bin/env python3
"""Regenerate /verif/MANIFEST.json from the table below (claimed checks) + properties.jsonl."""
import json, os
V = "/verif"
props = [json.loads(l) for l in open(f"{V}/properties.jsonl")]
CLAIMED = json.load(open(f"{V}/tools/claimed.json"))   # id -> {text, note, technique, design_ref}
checks, na = [], []
for p in props:
    pid = p["id"]
    c = CLAIMED.get(pid)
    if not c or not os.path.exists(f"{V}/mc/props/{pid}.py"):
        na.append({"property_id": pid, "reason": (c or {}).get("na_reason", "check not built yet in this round (design in DESIGN.md section 5); not claimed until its driver exists and is silent on the unchanged tree")})
        continue
    checks.append({
        "property_id": pid,
        "quick_cmd": f"./check {pid} --tier quick",
        "thorough_cmd": f"./check {pid} --tier thorough",
        "evidence_file": f"/verif/evidence/{pid}.json",
        "replay_cmd_template": f"./check {pid} --replay {{path}}",
        "engine": "mc",
        "level_claimed": {"category": "model_checking", "text": c["text"], "design_ref": c.get("design_ref", f"DESIGN.md section 5, {pid}")},
        "level_note": c["note"],
        "technique": c["technique"],
    })
m = {
    "version": 1,
    "setup_cmd": "/venv/bin/python -m compileall -q mc && /venv/bin/python -c \"import sys; sys.path.insert(0, '/verif'); import mc.tree\"",
    "hooks": {
        "guard": "NUMPOLY_VERIF",
        "enable": "no in-source hooks: the harness wraps callables inside the checker process only (poison fill, division-loop monitor, dispatch probe, argument snapshots); NUMPOLY_VERIF=1 is set by the harness for itself",
        "baseline_off_cmd": "cd /repo && /venv/bin/python -m pytest -ra -q -p no:cacheprovider --timeout=900 --continue-on-collection-errors",
        "source_commits": [],
        "add_only": True,
    },
    "engines": [{"name": "mc", "path": "/verif/mc", "serves_properties": [c["property_id"] for c in checks],
                 "kind_free_text": "hand-written bounded-exhaustive explorer for Python: enumerates complete finite input / program / history spaces on the real numpoly code in 16 forked workers and judges every transition against an exact reference model (mc/model.py); TLC state graph replay for C14"}],
    "checks": checks,
    "not_applicable": na,
    "notes": "All checks run /venv/bin/python against the working tree at $VERIF_REPO (default /repo). Known genuine defects that are not repaired are listed in /verif/known_findings.json; repaired ones are listed there as fixed entries (which suppress nothing).",
}
json.dump(m, open(f"{V}/MANIFEST.json", "w"), indent=1)
print("claimed:", [c["property_id"] for c in checks], "n/a:", len(na))
