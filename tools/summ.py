#!/usr/bin/env python3
"""summarise violations of a check run: tools/summ.py C10  (runs quick with VERIF_OUT scratch, groups failures)"""
import sys, os, json, collections, subprocess, re
sys.path.insert(0, '/verif')
os.environ.setdefault("PYTHONHASHSEED", "0")
pid = sys.argv[1]; tier = sys.argv[2] if len(sys.argv) > 2 else "quick"
from mc import run, tree
import importlib
prop = importlib.import_module(f"mc.props.{pid}")
cases = prop.cases(tier, 0)
res = run.run_pool(prop, cases)
groups = collections.Counter(); ex = {}
findings = run.load_findings(pid)
for i, r in res:
    for f in r["fails"]:
        known = run.match_finding(f, findings)
        key = (f["op"], f["kind"], re.sub(r"\[\w+[.\w]*\]", "", re.sub(r"[-\d]+", "#", f["detail"][:int(os.environ.get("W", "40"))])), known["id"] if known else "-")
        groups[key] += 1; ex.setdefault(key, f)
for key, n in sorted(groups.items(), key=lambda kv: -kv[1]):
    print(n, key, "\n     ", ex[key]["detail"][:260].replace("\n", " "), "\n      tags:", ex[key]["tags"])
