#!/usr/bin/env python3
"""print the prompt given to a mutant-writing sub-agent: tools/agent_prompt.py C07 /tmp/wt/mC07"""
import json, sys
pid, wt = sys.argv[1], sys.argv[2]
props = {json.loads(l)['id']: json.loads(l) for l in open('/verif/properties.jsonl')}
p = props[pid]
print(f"""You are helping to evaluate a verification effort for the Python library jonathf/numpoly (polynomial arrays built on numpy structured arrays). Your job is to write *seeded defects*: small, realistic changes to the library that BREAK one stated semantic property while the library still imports and its existing test-suite still passes exactly as before.

Your private scratch checkout (a git worktree, compiled Cython kernels already copied in) is: {wt}
Work ONLY inside that directory. Never edit or read anything under /repo or /verif (they are off limits), and do not create other worktrees. Use the interpreter /venv/bin/python. Because the working directory comes first on sys.path, running python from inside {wt} imports the numpoly of your checkout (verify once with: cd {wt} && /venv/bin/python -c "import numpoly; print(numpoly.__file__)"). There is no network and no Cython: edit only .py files (editing .pyx files has no effect).

The existing test-suite: cd {wt} && /venv/bin/python -m pytest -q -p no:cacheprovider --timeout=900 -q test   (about 20 s). On the unchanged checkout exactly 12 tests fail (listed below); every other test passes. With your change the outcome must be identical: the same failures and nothing else.

THE PROPERTY (id {pid}: {p['title']}):
{p['statement']}

Quantified over: {p['quantifier']['text']}
Code the property is anchored in: {', '.join(p['anchors']['files'])}

TASK: produce TWO independent seeded defects (A and B) for this property, in different functions of the code the property is anchored in (or in helpers those functions call). This round is about FAST PATHS AND REFACTORS: the kind of change a maintainer makes to speed the code up or tidy it, which is right for the common inputs and wrong for a class of less common ones. Realistic examples: an early return or special case for "the easy situation" (operands already aligned, same names, same shape, scalar exponent, one term, constant polynomial, contiguous input, empty keyword set) whose test for the easy situation is slightly too generous; a Python loop rewritten as one vectorised numpy expression (`numpy.add.at`, `einsum`, fancy indexing, `numpy.unique(..., return_inverse=True)`, broadcasting instead of tiling, `cumsum` instead of a loop) that handles duplicates, ties, ordering, negative strides, 0-d or size-1 axes, or dtype promotion differently from the loop it replaces; a sort / unique / set / dict replaced by a cheaper construct that loses order or merges what must stay distinct; integer arithmetic moved to a narrower or floating type "because it is faster"; a helper call replaced by an inlined shortcut that skips a normalisation step (cleaning zero terms, sorting names, copying, restoring options); an `isinstance` test narrowed or widened; a comparison of arrays replaced by a comparison of shapes or lengths; a function that delegates to a sibling with slightly different defaults. Each must:
 1. be small and plausible - a change that reads as an optimisation or clean-up in a code review (no sabotage keyed on a magic value), ideally with a short comment saying why it is faster or simpler,
 2. violate the property above for some inputs, observably through the public API (say which class of inputs), while ordinary inputs - in particular everything the existing tests use - still behave correctly,
 3. keep the whole existing test-suite outcome unchanged (run it: the same failures listed below and nothing else), and the library still imports.
The defect must be deterministic and must show on a single call (or a short composition of calls) in a fresh interpreter - this round is NOT about caches or state kept between calls.

For each defect X in (A, B) write, inside {wt}/MUTANT/:
  - X.patch.diff : output of `git diff` for that change alone (relative to the unchanged checkout; each patch must apply on its own to a clean checkout with `git apply`),
  - X.demo.py    : a small standalone program (run as `cd <checkout> && /venv/bin/python MUTANT/X.demo.py`) that exits 0 on the unchanged checkout and exits non-zero (assertion failure) when the patch is applied, demonstrating the property violation through public API calls only,
  - X.notes.md   : 3-6 lines: what was changed, which clause of the property it breaks, what is needed for it to manifest, test-suite and demo results.
Procedure per defect: start from a clean checkout (`git -C {wt} checkout -- .`; the MUTANT directory is untracked and stays), make the change, run the test-suite, run the demo (must fail), save `git diff > MUTANT/X.patch.diff`, revert with `git checkout -- .`, run the demo again (must pass). Leave the checkout clean (reverted) at the end, with only the MUTANT/ directory added. Before finishing, double-check all patches apply cleanly with `git apply --check`. If you cannot find two, deliver as many as you can.

Known limitations of the unchanged checkout (do not build on these; your demo must pass on the unchanged checkout): matmul with 1-d operands does not follow numpy; size-0 (empty) arrays lose their shape; repeat without an axis repeats along axis 0; power with non-integer exponents truncates them; a numpy scalar on the left of / % divmod dispatches to numeric division; out= arguments are handled inconsistently. On the unchanged checkout the test-suite fails exactly these 12 tests and no others: test_count_nonzero[numpoly|numpy], test_amax[numpoly|numpy], test_amin[numpoly|numpy], test_max[numpoly|numpy|method], test_min[numpoly|numpy|method] (their expectations are known to be wrong); with your change the outcome must be identical. Run the suite WITHOUT -x. Never use `git stash` (the stash is shared between all worktrees and other agents work concurrently); to compare with the unchanged checkout save your diff to a file and use `git checkout -- .`. The machine is busy: the test-suite may take a few minutes.

When a demo is run as `cd <checkout> && /venv/bin/python MUTANT/X.demo.py`, Python puts MUTANT/ (not the checkout) first on sys.path: start each demo with `import sys, os; sys.path.insert(0, os.getcwd())` and assert that numpoly.__file__ lies under the checkout.

Final answer: a short report listing, for each of A-B: the files changed, a one-sentence description, what is needed to trigger it, and confirmation of the test-suite and demo results.""")
