#!/usr/bin/env python3
"""print the prompt given to a mutant-writing sub-agent: tools/agent_prompt.py C07 /tmp/wt/mC07"""
import json, sys
pid, wt = sys.argv[1], sys.argv[2]
props = {json.loads(l)['id']: json.loads(l) for l in open('/verif/properties.jsonl')}
p = props[pid]
print(f"""You are helping to evaluate a verification effort for the Python library jonathf/numpoly (polynomial arrays built on numpy structured arrays). Your job is to write *seeded defects*: small, realistic changes to the library that BREAK one stated semantic property while the library still imports and its existing test-suite still passes exactly as before.

Your private scratch checkout (a git worktree, compiled Cython kernels already copied in) is: {wt}
Work ONLY inside that directory. Never edit or read anything under /repo or /verif (they are off limits), and do not create other worktrees. Use the interpreter /venv/bin/python. Because the working directory comes first on sys.path, running python from inside {wt} imports the numpoly of your checkout (verify once with: cd {wt} && /venv/bin/python -c "import numpoly; print(numpoly.__file__)"). There is no network and no Cython: edit only .py files (editing .pyx files has no effect).

The existing test-suite: cd {wt} && /venv/bin/python -m pytest -q -p no:cacheprovider --timeout=900 -q test   (about 20 s). On the unchanged checkout exactly 12 tests fail (listed below); every other test passes. With your change the outcome must be identical: the same failures and nothing else.

THE PROPERTY (id {pid}: {p['title']}):
{p['statement']}

Quantified over: {p['quantifier']['text']}
Code the property is anchored in: {', '.join(p['anchors']['files'])}

TASK: produce TWO independent seeded defects (A and B) for this property, in different functions of the code the property is anchored in (or in helpers those functions call). This round is about HISTORY and SHARED STATE: each defect must be of the kind where a single call on a fresh interpreter still behaves correctly, and the property breaks only because of what happened EARLIER in the same process or because two objects now share something they should not. Realistic examples: a local scratch buffer, list or dict hoisted to module scope (or turned into a mutable default argument) "for speed" and not reset between calls; a memo/cache (functools.lru_cache, a module-level dict) added with a key that is too coarse (e.g. keyed on the names or the shape but not the dtype, the exponents or the current options); a result that is returned from the cache without a copy, so that a caller who writes to one result changes a later one; a result that now shares memory (a view instead of a copy) with an argument or with an earlier result; a global option or numpy setting that is changed during a call and not restored on some path (early return, exception); an iterator or counter that is not re-initialised; a lazily built module global that is built from the first call's arguments; state stored on a class instead of the instance. Each must:
 1. be small and plausible - something a maintainer could commit as an optimisation or clean-up (no sabotage keyed on a magic value),
 2. violate the property above for some SEQUENCE of public calls (say which sequence), observably through the public API, while the same final call made first in a fresh interpreter is still correct,
 3. keep the whole existing test-suite outcome unchanged (run it: the same failures listed below and nothing else; remember the tests run in one process, so a cache can make them fail - check), and the library still imports.
Keep the triggering sequence short (two to four calls with small ordinary inputs) and deterministic.

For each defect X in (A, B) write, inside {wt}/MUTANT/:
  - X.patch.diff : output of `git diff` for that change alone (relative to the unchanged checkout; each patch must apply on its own to a clean checkout with `git apply`),
  - X.demo.py    : a small standalone program (run as `cd <checkout> && /venv/bin/python MUTANT/X.demo.py`) that exits 0 on the unchanged checkout and exits non-zero (assertion failure) when the patch is applied, demonstrating the property violation through public API calls only,
  - X.notes.md   : 3-6 lines: what was changed, which clause of the property it breaks, what is needed for it to manifest, test-suite and demo results.
Procedure per defect: start from a clean checkout (`git -C {wt} checkout -- .`; the MUTANT directory is untracked and stays), make the change, run the test-suite, run the demo (must fail), save `git diff > MUTANT/X.patch.diff`, revert with `git checkout -- .`, run the demo again (must pass). Leave the checkout clean (reverted) at the end, with only the MUTANT/ directory added. Before finishing, double-check all patches apply cleanly with `git apply --check`. If you cannot find two, deliver as many as you can.

Known limitations of the unchanged checkout (do not build on these; your demo must pass on the unchanged checkout): matmul with 1-d operands does not follow numpy; size-0 (empty) arrays lose their shape; repeat without an axis repeats along axis 0; power with non-integer exponents truncates them; a numpy scalar on the left of / % divmod dispatches to numeric division; out= arguments are handled inconsistently. On the unchanged checkout the test-suite fails exactly these 12 tests and no others: test_count_nonzero[numpoly|numpy], test_amax[numpoly|numpy], test_amin[numpoly|numpy], test_max[numpoly|numpy|method], test_min[numpoly|numpy|method] (their expectations are known to be wrong); with your change the outcome must be identical. Run the suite WITHOUT -x. Never use `git stash` (the stash is shared between all worktrees and other agents work concurrently); to compare with the unchanged checkout save your diff to a file and use `git checkout -- .`. The machine is busy: the test-suite may take a few minutes.

When a demo is run as `cd <checkout> && /venv/bin/python MUTANT/X.demo.py`, Python puts MUTANT/ (not the checkout) first on sys.path: start each demo with `import sys, os; sys.path.insert(0, os.getcwd())` and assert that numpoly.__file__ lies under the checkout.

Final answer: a short report listing, for each of A-B: the files changed, a one-sentence description, what is needed to trigger it, and confirmation of the test-suite and demo results.""")
