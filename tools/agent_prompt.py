#!/usr/bin/env python3
"""print the prompt given to a mutant-writing sub-agent: tools/agent_prompt.py C07 /tmp/wt/mC07"""
import json, sys
pid, wt = sys.argv[1], sys.argv[2]
props = {json.loads(l)['id']: json.loads(l) for l in open('/verif/properties.jsonl')}
p = props[pid]
print(f"""You are helping to evaluate a verification effort for the Python library jonathf/numpoly (polynomial arrays built on numpy structured arrays). Your job is to write *seeded defects*: small, realistic changes to the library that BREAK one stated semantic property while the library still imports and its existing test-suite still passes exactly as before.

Your private scratch checkout (a git worktree, compiled Cython kernels already copied in) is: {wt}
Work ONLY inside that directory. Never edit or read anything under /repo or /verif (they are off limits), and do not create other worktrees. Use the interpreter /venv/bin/python. Because the working directory comes first on sys.path, running python from inside {wt} imports the numpoly of your checkout (verify once with: cd {wt} && /venv/bin/python -c "import numpoly; print(numpoly.__file__)"). There is no network and no Cython: edit only .py files (editing .pyx files has no effect).

The existing test-suite: cd {wt} && /venv/bin/python -m pytest -q -p no:cacheprovider --timeout=900 -q test   (about 20 s). On the unchanged checkout exactly 12 tests fail (listed below); every other test passes. With your change the outcome must be identical: the same failures and nothing else.

THE PROPERTY (id {pid}: {p['title']}):
{p['statement']}

Quantified over: {p['quantifier']['text']}
Code the property is anchored in: {', '.join(p['anchors']['files'])}

TASK: produce TWO independent seeded defects (A and B) for this property, in different mechanisms/places if possible. Each must:
 1. be a small plausible source change (the kind of slip or 'optimisation' a maintainer could really make: an off-by-one, a wrong sort key, a cache or shared scratch buffer, a skipped branch for a 'rare' case, an early return, in-place update of an argument, wrong operand used for alignment, a missing restore on an exception path, ...). Not a blatant sabotage such as `if x == 7: return garbage`, and not a special case keyed on one magic input value.
 2. violate the property above for some inputs — observable through the public API.
 3. need something SPECIFIC to manifest, so that ordinary use and the existing tests do not expose it at once: e.g. a particular multi-step sequence of operations, an unusual-but-legal input (a view, a size-1 axis, three or more indeterminates, names like q10 vs q2, cancelling terms, many equal-degree terms, a rarely used dtype, nested contexts, an exception path, 0-d arrays, large exponents ...), or two cooperating sites that each look fine alone.
 4. keep the whole existing test-suite outcome unchanged (run it!), and keep the library importable.

For each defect X in (A, B) write, inside {wt}/MUTANT/:
  - X.patch.diff : output of `git diff` for that change alone (relative to the unchanged checkout; the two patches must each apply on their own to a clean checkout with `git apply`),
  - X.demo.py    : a small standalone program (run as `cd <checkout> && /venv/bin/python MUTANT/X.demo.py`) that exits 0 on the unchanged checkout and exits non-zero (assertion failure) when the patch is applied, demonstrating the property violation through public API calls only,
  - X.notes.md   : 5-10 lines: what was changed, which clause of the property it breaks, what exactly is needed for it to manifest, and the commands you ran (test-suite result with the patch, demo result with and without the patch).
Procedure per defect: start from a clean checkout (`git -C {wt} checkout -- .`; the MUTANT directory is untracked and stays), make the change, run the test-suite, run the demo (must fail), save `git diff > MUTANT/X.patch.diff`, revert with `git checkout -- .`, run the demo again (must pass). Leave the checkout clean (reverted) at the end, with only the MUTANT/ directory added. Before finishing, double-check both patches apply cleanly with `git apply --check`.

Known limitations of the unchanged checkout (do not build on these; your demo must pass on the unchanged checkout): matmul with 1-d operands does not follow numpy; size-0 (empty) arrays lose their shape; repeat without an axis repeats along axis 0; power with non-integer exponents truncates them; a numpy scalar on the left of / % divmod dispatches to numeric division. On the unchanged checkout the test-suite fails exactly these 12 tests and no others: test_count_nonzero[numpoly|numpy], test_amax[numpoly|numpy], test_amin[numpoly|numpy], test_max[numpoly|numpy|method], test_min[numpoly|numpy|method] (their expectations are known to be wrong); with your change the outcome must be identical. Run the suite WITHOUT -x. Never use `git stash` (the stash is shared between all worktrees and other agents work concurrently); to compare with the unchanged checkout save your diff to a file and use `git checkout -- .`.

This is a third round. Rounds 1 and 2 already produced, for the various properties of this library, defects of these kinds: off-by-one / skipped first or last term in a loop; the wrong option key (display_* instead of sort_*); numpy.resize instead of broadcasting; a permutation applied in the inverse direction; memoisation with an incomplete cache key; dtype casts and promotions (first operand's dtype, narrow integers, byte order); in-place updates of operands that are already aligned; early returns for "trivial" inputs (all-zero terms, constants, empty shapes); wrong axis normalisation for negative axes; text encodings and escaping; restore-on-exit paths that miss an exception class. Find something of a DIFFERENT kind, or in a different place: rarely used keyword arguments and call forms of a public function, the second of two code paths that are selected by operand kind / shape / dtype / number of indeterminates, helpers shared by several public functions (so the defect shows only through one of them), interactions of two global options, results that are views of (or share memory with) an argument and are modified later, iteration order of dicts/sets, reliance on the order of names, integer overflow in index arithmetic, numpy scalar vs 0-d array distinctions, etc.

Final answer: a short report listing, for A and B: the files changed, a one-sentence description, what is needed to trigger it, and confirmation of the test-suite and demo results.""")
