#!/bin/sh
# tools/trymut.sh <worktree> <patch> <ID> [ID...] : apply patch in scratch worktree, run quick checks against it, revert
wt=$1; patch=$2; shift 2
git -C "$wt" checkout -q -- . && git -C "$wt" checkout -q --detach "$(git -C /repo rev-parse HEAD)" && git -C "$wt" apply "$patch" || { echo "PATCH DOES NOT APPLY"; exit 3; }
for id in "$@"; do
  VERIF_REPO="$wt" VERIF_OUT=/var/tmp/numpoly-verif-mut /verif/check "$id" 2>&1 | grep -v "^  \|^WARNING" | tail -${TAILN:-6}
  echo "== $id exit=$?"
done
git -C "$wt" checkout -q -- .
