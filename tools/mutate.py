#!/usr/bin/env python3
"""tools/mutate.py [--per-file N] [--files glob ...] : mechanical mutation run.

For a deterministic sample of single-token mutations of the library sources (operators, comparisons, boolean
constants, any/all, min/max, small integer constants, slices) in a scratch worktree of /repo HEAD:
  1. the library must still import,
  2. the repository's own test-suite must have exactly its usual outcome (the 12 known failures deselected, -x),
  3. then the quick checks of the properties anchored in the mutated file are run (VERIF_REPO=<worktree>).
Writes one JSON line per mutant to /var/tmp/numpoly-mutants.jsonl and prints a summary.  Survivors (tests pass,
checks silent) are either equivalent mutants or gaps; they are listed for reading."""
import glob, io, json, os, re, subprocess, sys, time, tokenize

WT = "/tmp/wt/mut"
OUT = "/var/tmp/numpoly-mutants.jsonl"
KNOWN = ["test/test_array_function.py::test_count_nonzero", "test/test_array_function.py::test_amax", "test/test_array_function.py::test_amin",
         "test/test_array_function.py::test_max", "test/test_array_function.py::test_min"]
SWAPS = {"+": "-", "-": "+", "*": "+", "<": "<=", "<=": "<", ">": ">=", ">=": ">", "==": "!=", "!=": "==", "and": "or", "or": "and",
         "True": "False", "False": "True", "any": "all", "all": "any", "min": "max", "max": "min", "+=": "-=", "-=": "+=", "&": "|", "|": "&",
         "0": "1", "1": "2", "2": "1", "not": ""}


def sh(cmd, timeout=None, env=None):
    return subprocess.run(cmd, shell=True, capture_output=True, text=True, timeout=timeout, env=env)


def candidates(path):
    """(line, col, old, new) for every mutable token outside strings / comments / decorators / annotations-ish lines"""
    src = open(path).read()
    out = []
    try:
        toks = list(tokenize.generate_tokens(io.StringIO(src).readline))
    except Exception:
        return out
    depth_doc = False
    for i, t in enumerate(toks):
        if t.type in (tokenize.OP, tokenize.NAME, tokenize.NUMBER) and t.string in SWAPS:
            line = t.line
            if line.lstrip().startswith(("import ", "from ", "@", "def ", "class ", '"""', "'''", ">>>", "...")):
                continue
            if t.string in ("0", "1", "2") and not re.search(r"[\[\(,=:] ?-?%s[\]\),:]" % t.string, line):
                continue
            if t.string in ("-", "+") and toks[i - 1].string in ("(", "[", ",", "=", ":", "return"):
                continue   # unary sign
            if t.string == "*" and (toks[i - 1].string in ("(", ",", "**") or toks[i + 1].string == "*"):
                continue   # star-args
            out.append((t.start[0], t.start[1], t.string, SWAPS[t.string]))
    return out


def apply(path, cand):
    ln, col, old, new = cand
    lines = open(path).read().split("\n")
    s = lines[ln - 1]
    assert s[col:col + len(old)] == old, (s, cand)
    lines[ln - 1] = s[:col] + new + s[col + len(old):]
    open(path, "w").write("\n".join(lines))


def anchors():
    m = {}
    for l in open("/verif/properties.jsonl"):
        p = json.loads(l)
        for f in p["anchors"]["files"]:
            m.setdefault(f, []).append(p["id"])
    return m


def main():
    per_file = 3
    args = sys.argv[1:]
    if args and args[0] == "--per-file":
        per_file = int(args[1]); args = args[2:]
    head = sh("git -C /repo rev-parse HEAD").stdout.strip()
    if not os.path.isdir(WT):
        sh("/verif/tools/mkwt.sh mut")
    sh(f"git -C {WT} checkout -q -- . ; git -C {WT} checkout -q --detach {head}")
    anc = anchors()
    files = sorted(set(f for f in anc if f.endswith(".py")) | set(
        os.path.relpath(p, "/repo") for p in glob.glob("/repo/numpoly/array_function/*.py") + glob.glob("/repo/numpoly/poly_function/*.py")
        + glob.glob("/repo/numpoly/poly_function/divide/*.py") + glob.glob("/repo/numpoly/construct/*.py") + glob.glob("/repo/numpoly/utils/*.py")
        + ["/repo/numpoly/align.py", "/repo/numpoly/baseclass.py", "/repo/numpoly/option.py", "/repo/numpoly/dispatch.py", "/repo/numpoly/sympy_.py"]))
    files = [f for f in files if not f.endswith("__init__.py") and os.path.exists(os.path.join(WT, f)) and (not args or any(a in f for a in args))]
    desel = " ".join(f"--deselect '{k}'" for k in KNOWN)
    done = set()
    if os.path.exists(OUT):
        for l in open(OUT):
            r = json.loads(l)
            if r.get("head") == head:
                done.add((r["file"], r["line"], r["col"], r["new"]))
    n = 0
    for f in files:
        path = os.path.join(WT, f)
        cands = candidates(path)
        if not cands:
            continue
        step = max(1, len(cands) // per_file)
        picks = cands[step // 2::step][:per_file]
        for cand in picks:
            if (f, cand[0], cand[1], cand[3]) in done:
                continue
            sh(f"git -C {WT} checkout -q -- .")
            apply(path, cand)
            rec = {"head": head, "file": f, "line": cand[0], "col": cand[1], "old": cand[2], "new": cand[3],
                   "text": open(path).read().split("\n")[cand[0] - 1].strip()[:160]}
            t0 = time.time()
            imp = sh(f"cd {WT} && /venv/bin/python -c 'import numpoly'", timeout=120)
            if imp.returncode:
                rec["status"] = "does-not-import"
            else:
                try:
                    tst = sh(f"cd {WT} && /venv/bin/python -m pytest -x -q -p no:cacheprovider --timeout=300 {desel} test 2>&1 | tail -3", timeout=900)
                    ok = " passed" in tst.stdout and " failed" not in tst.stdout and "error" not in tst.stdout.lower()
                except subprocess.TimeoutExpired:
                    ok = False
                if not ok:
                    rec["status"] = "killed-by-tests"
                else:
                    props = anc.get(f) or ["C01", "C03", "C08", "C09", "C11", "C17"]
                    rec["checks"] = {}
                    rec["status"] = "survived"
                    for pid in props:
                        env = dict(os.environ, VERIF_REPO=WT, VERIF_OUT="/var/tmp/numpoly-verif-mut")
                        try:
                            r = sh(f"/verif/check {pid}", timeout=1800, env=env)
                            rec["checks"][pid] = r.returncode
                        except subprocess.TimeoutExpired:
                            rec["checks"][pid] = "timeout"
                        if rec["checks"][pid] == 1:
                            rec["status"] = "killed-by-checks"
                            rec["killed_by"] = pid
                            break
            rec["wall_s"] = round(time.time() - t0, 1)
            with open(OUT, "a") as o:
                o.write(json.dumps(rec) + "\n")
            n += 1
            print(f, cand, rec["status"], rec.get("killed_by", ""), rec["wall_s"], flush=True)
    sh(f"git -C {WT} checkout -q -- .")
    rows = [json.loads(l) for l in open(OUT) if json.loads(l).get("head") == head]
    import collections
    c = collections.Counter(r["status"] for r in rows)
    print("SUMMARY", dict(c))
    for r in rows:
        if r["status"] == "survived":
            print("SURVIVOR", r["file"], r["line"], r["old"], "->", r["new"], "|", r["text"], r.get("checks"))


if __name__ == "__main__":
    main()
